#!/bin/bash
# mut_try.sh <ID> <file-relative-to-repo> <python-replace-old> <python-replace-new>
# applies a one-off textual mutation to /repo, runs the quick check, reverts; prints CAUGHT/MISSED
id=$1; file=$2; old=$3; new=$4
cd /repo || exit 2
git diff --quiet || { echo "repo dirty"; exit 2; }
python3 - "$file" "$old" "$new" <<'PY' || { git checkout -- .; exit 2; }
import sys
p,old,new=sys.argv[1:4]; s=open(p).read()
if s.count(old)!=1: print("pattern count", s.count(old)); sys.exit(1)
open(p,'w').write(s.replace(old,new))
PY
out=$(cd /verif && ./check $id quick 2>&1); rc=$?
git -C /repo checkout -- .
if [ $rc -eq 1 ]; then echo "CAUGHT  [$id] $old -> $new :: $(echo "$out" | grep -m1 violated | cut -c1-220)";
elif [ $rc -eq 0 ]; then echo "MISSED  [$id] $old -> $new";
else echo "ERROR($rc) [$id] $old -> $new :: $(echo "$out" | tail -3)"; fi
