#!/usr/bin/env python3
"""Regenerates /verif/MANIFEST.json from the table below (kept in one place so that the
manifest stays valid while engines are added)."""
import json, os, subprocess
V = os.path.dirname(os.path.dirname(os.path.abspath(__file__)))
hook_commits = ["95c5fd5"]
NA = {
 "C01": "pure function of program text and input (compiled execution vs tree evaluation): no schedule, clock, fault or interleaving for a simulator to control; needs a reference evaluator (differential testing, another family)",
 "C02": "value- and program-driven (fuzzing plus static well-formedness); the in-family fragment - panics provoked by I/O schedules, faults, cancellation or reuse - is an oracle of every claimed check (a panic in any simulated run is a violation there), not claimed separately",
 "C03": "pure function of the source bytes (parser totality and positions)",
 "C04": "pure function of the source text (operator precedence and associativity)",
 "C05": "pure function of values (number/string conversion and comparison typing)",
 "C06": "deterministic in-memory state machine driven only by the program ($0/fields/NF); no I/O, timing or fault participates (the input side of record reading is C07)",
 "C09": "pure function of format and arguments (printf/sprintf)",
 "C10": "pure functions of their arguments (string, regex and int builtins)",
 "C16": "pure function of the program (scalar/array typing); its one nondeterministic ingredient, Go map order in the resolver, is decided under C19",
 "C17": "pure function of signature and values (native function conversion); the harness relies on it for its probes (trusted base)",
 "C18": "pure function of program and input (coverage transparency and counts)",
 "C20": "pure function of the program (printed form re-parses to the same tree)",
}
PENDING = "engine under construction in this session (claimed in DESIGN.md; listed here until its check is registered)"
CHECKS = {
 "C07": dict(cat="fault_enumeration", ref="5.1",
   text="Seeded search over delivery schedules of the input bytes (every composition of short inputs, every split point, 1-byte and zero-length reads, reads cut at the scanner's 64 KiB buffer, injected read errors) for RS drawn from newline / any byte / empty / multi-byte char / a regex grammar, through stdin, file operands, getline, getline<file and cmd|getline; each execution of the real interpreter is compared with the one-shot run and with a buffer-free reference split (lossless equations of the statement); also RS assigned while the scanner is alive (regex RS, another separator from record K on) and a main-loop record kept across getline var. Sampling, not proof.",
   note="Trusted: Go regexp on the whole input as reference, bufio.Scanner as part of the SUT, native-function argument conversion (C17). RS fixed per run.",
   tech="deterministic simulation: seeded delivery schedules and read faults vs reference split"),
 "C08": dict(cat="fault_enumeration", ref="5.2",
   text="W1: seeded search over delivery schedules (every composition of short inputs, every split point, 1-byte/zero-length reads, EOF with data) x separators (incl. multi-byte) x comment char x header x BOM, through Config fields or the INPUTMODE variable, stdin or file operand; fields of every execution are compared with encoding/csv (LazyQuotes) on the BOM-less bytes, $0 with the record's own byte range, FIELDS/@name with the header row, split($0, arr) and $0 = $0 with an RFC 4180 parse of the record text, and everything with the one-shot run. W2: a writer interpreter in CSV/TSV output mode (print args or $0 rebuild, raw/CRLF) writes generated CR-free rows into a simulated sink whose bytes reach a reader interpreter under a drawn schedule; the values must come back exactly. Sampling, not proof.",
   note="Trusted: encoding/csv.Reader as the RFC 4180 reference named by the property; $0 compared modulo CR for records containing a CR; native-function argument conversion (C17).",
   tech="deterministic simulation: seeded delivery schedules vs encoding/csv reference; simulated writer->reader pipeline"),
 "C14": dict(cat="exploration", ref="5.6",
   text="Seeded histories of 1-5 runs on one Interpreter of a multi-mode program, each run with its own Config (stdin bytes and delivery, Vars, operands over a simulated file system, CSV/TSV modes, sandbox flags, Environ) and ending (normal, exit or run-time error in BEGIN/rule/function/for-in/END, native failure, cancellation at a drawn VM step via hook H1 or by script, pre-cancelled context, stdin read error, stdout write error, rejected configuration); every run is executed again on a newly created Interpreter in an identical simulated world and stdout, stderr, status, error, files and probe observations must agree (with ResetVars+ResetRand: all state; without: the variable-blind observations). Sampling, not proof.",
   note="Without ResetVars, FS/OFS/ORS/RS/SUBSEP/CONVFMT/OFMT/RT are treated as variables that carry over (the probe assigns defaults first). Error texts are compared (same build on both sides).",
   tech="deterministic simulation: seeded run histories with injected aborts/cancellations vs fresh-interpreter twin"),
 "C19": dict(cat="exploration", ref="5.8",
   text="(1) Deterministic parsing: generated resolver-stress sources (2-8 functions, chains/diamonds/recursion, unused and forwarded parameters, natives, 0-4 injected independent type errors) and repository test programs are parsed under sorted, reversed and seeded-random iteration orders of every Go map in the resolver/compiler/interpreter (scratch rewrite 'maporder'); verdict, error text and position, Program.String and disassembly must be identical. (2) 2-6 Interpreters sharing one Program run as actors that yield at every VM step (hook H1) under a seeded scheduler tape; each must equal the sequential result, and a deep structural hash of the Program must not change at any switch. (3) Secondary layer: the same executions with real goroutines in a -race build. Sampling, not proof.",
   note="Interleaving granularity is one VM instruction; intra-instruction races are left to the -race layer, which is sound but not seed-replayable. The maporder rewrite is trusted to preserve Go semantics (its self-check runs the unedited test suite on the rewritten copy in the thorough tier).",
   tech="deterministic simulation: seeded map-iteration orders and VM-step scheduler; Program hash invariant; race detector as secondary monitor"),
 "C15": dict(cat="fault_enumeration", ref="5.7",
   text="Program archetypes with a native tick() in their hot paths (loops, recursion to depth 900, for-in over up to 10^5 elements with/without body and nested in calls, per-record and pattern-only rules, range patterns, functions called from patterns, END loops, output to stdout+file+command, getline loops, loops around system()/cmd|getline, and system/close/getline blocked on a hanging stub child) run under ExecuteContext with a simulated context that the simulator closes at a chosen VM step (hook H1), at a script-chosen tick, before the start, never, or while the interpreter waits for a child; 'enum' scenarios close it at every step of a short run. Oracles: never-cancelled == Execute; return within 2000 VM steps of the close; returned error is the context's error; a blocked wait ends without the simulator releasing the child and the child is dead; everything printed to stdout/files by iterations completed before the close is present. Sampling plus enumeration of cancel points of short runs.",
   note="Bound B_steps=2000 is stated, not read from the code. Output to a command is only required to be a well-formed prefix after a cancellation, because exec.CommandContext may kill the command. Real-time grace of 20 s only for 'child was never interrupted'.",
   tech="deterministic simulation: step-exact cancellation via VM-step hook, stub children paced over a control socket"),
 "C12": dict(cat="exploration", ref="5.4",
   text="Programs generated from up to 10 I/O attempts through every syntactic form (print/printf > and >>, print | cmd, cmd | getline [var], getline [var] < file, system, close and re-open, fflush, file operands), with names computed at run time (concatenation, sprintf, substr, array element, -v variable, ENVIRON, a value read from stdin), special names, attempts in BEGIN/rules/END/functions and guarded by earlier results, run under the 8 flag combinations x custom OpenFile present/absent x OpenFile fault plans in a simulated world that logs every OpenFile call and every process start and snapshots the scratch directory and an empty working directory. Invariants: NoExec => no process started; NoFileWrites => no write open, directory unchanged; NoFileReads => no read open, no file data seen, stdin still usable; the first forbidden attempt ends the run with an error before it completes and nothing follows; with a custom OpenFile every touched file went through it (no stray in the working directory); permitted attempts really touch the world. Sampling, not proof.",
   note="Process starts are observed through the stub shell configured in Config.ShellCommand; writes to '-', /dev/stdout, /dev/stderr are not file attempts (either outcome accepted); stdin availability is not asserted when a child or a second scanner shares standard input.",
   tech="deterministic simulation: generated I/O attempts against a logged simulated world (OpenFile seam, stub shell), invariants over the world log"),
 "C11": dict(cat="exploration", ref="5.3",
   text="Programs of a small template language (BEGIN / up to 4 rules with patterns NR==k, FNR==k, $0~/lit/, v==k and ranges / END; bodies of traces, the six getline forms, next, nextfile, exit [n], assignments, the same under if, in loops and inside user functions, BEGIN-time edits of ARGV/ARGC) run over a simulated multi-file world (operand lists mixing files - some empty or without final newline -, '-', empty strings, var=value, missing files; every source delivered under a drawn schedule; default and CSV input mode) and are compared step by step with an executable model of the input cursor (operand cursor, NR/FNR/FILENAME, which getline form sets what, range flags, next/nextfile/exit unwinding through functions, END after exit with the last record, exit status). This samples the template family, not all AWK programs (that would need a reference AWK evaluator, another family).",
   note="Relaxations: cmd | getline may or may not count in NR; FILENAME for standard input is taken from its first observation; main input on stdin is not combined with getline < \"-\" or with commands that inherit stdin.",
   tech="deterministic simulation: generated operation histories over a simulated file world vs executable input-cursor model"),
 "C13": dict(cat="fault_enumeration", ref="5.5",
   text="Generated programs over output operations (print/printf to stdout, '-', /dev/stdout, /dev/stderr, files with > and >>, commands with |; close, fflush, system, getline from names that are or were outputs, cmd | getline; exit, run-time errors; loops, functions, per-record rules, END) run against a simulated world: Config.Output as a bare sink, behind a real bufio.Writer of drawn size, or a sink with its own Flush; real files behind the OpenFile seam; stub child processes (sinks, talkers, sources, system children with statuses and signals) that report what they received over a control socket. Faults: standard output failing from byte k ('failat' scenarios enumerate every k of the fault-free output), flush-only failure, a file on /dev/full, a command that exits before reading. The destinations (file contents, bytes each command instance received, exact stdout stream incl. synchronous child output, /dev/stderr tokens, return values of close/fflush/system/getline, exit status, error/no-error) are compared with a reference model driven by the observed operation trace. One scenario in twelve runs the real goawk binary (goawk.go) as a process with real /bin/sh children, standard output on a file, a pipe, /dev/full or a pipe without reader, against a static model of files, command inputs, stdout, stderr tokens and exit status. Sampling plus enumeration of failure offsets.",
   note="The model is driven by the trace of started operations (control flow is not re-evaluated). Children that write to the shared stdout concurrently with the program are checked by content projection (letters vs digits). Known open finding F-C13-2 (flush-only failure swallowed). Files on /dev/full are excluded from content comparison.",
   tech="deterministic simulation: generated output histories x write-failure offsets x stub children vs trace-driven destination model"),
}
ORDER = ["C07","C08","C11","C12","C13","C14","C15","C19"]
checks = []
na = [dict(property_id=k, reason=v) for k, v in sorted(NA.items())]
for pid in ORDER:
    c = CHECKS.get(pid)
    if not c:
        na.append(dict(property_id=pid, reason=PENDING)); continue
    checks.append(dict(property_id=pid, quick_cmd=f"./check {pid} quick", thorough_cmd=f"./check {pid} thorough",
        evidence_file=f"/verif/evidence/{pid}.json", replay_cmd_template="./check replay {path}", engine="simcheck",
        level_claimed=dict(category=c["cat"], text=c["text"], design_ref="DESIGN.md section "+c["ref"]),
        level_note=c["note"], technique=c["tech"]))
na.sort(key=lambda x: x["property_id"])
m = dict(version=1,
  setup_cmd="cd /verif && export GOFLAGS=-mod=mod GOPROXY=off GOSUMDB=off GOTOOLCHAIN=local && mkdir -p bin evidence replays && (cd tools/maporder && go build -o /verif/bin/maporder .) && ./check build /verif/bin/prebuilt >/dev/null",
  hooks=dict(guard="verif", enable="go build -tags verif (done by ./check on a scratch copy of /repo's working tree, after the maporder rewrite)",
     baseline_off_cmd="cd /repo && go test -mod=mod -json -vet=off -count=1 -timeout 25m ./...",
     source_commits=hook_commits, add_only=True),
  engines=[dict(name="simcheck", path="/verif/sim", serves_properties=[c["property_id"] for c in checks],
     kind_free_text="deterministic simulator with fault injection (Go): seeded scenarios, SimReader/SimSink/SimFS/SimContext, stub child simsh, VM-step scheduler, map-order control by scratch rewrite (tools/maporder)")],
  checks=checks, not_applicable=na,
  notes="Every check rebuilds from /repo's working tree into a scratch copy under $TMPDIR and removes it. Exit 2 = harness/build trouble (never a violation). Known findings: /verif/known_findings.json. VERIF_SEED, VERIF_TIER, VERIF_BUDGET_S honoured.")
json.dump(m, open(os.path.join(V, "MANIFEST.json"), "w"), indent=1)
print("MANIFEST.json written:", len(checks), "checks,", len(na), "not applicable")
