#!/bin/bash
# seed_recheck.sh <seed-dir-name> [extra-check-ids...]: re-run our quick check(s) against a seeded
# change that was confirmed earlier (tools/seed_eval.sh: applies, builds, baseline kept, demonstration
# discriminates). Applies /verif/seeded/<seed>/patch.diff to /repo, runs the checks, reverts, and
# rewrites only the "our_checks" list of meta.json.
set -u
export GOFLAGS=-mod=mod GOPROXY=off GOSUMDB=off GOTOOLCHAIN=local
seed=$1; shift; extra="$*"; V=/verif; S=$V/seeded/$seed
id=${seed%%-*}
[ -f $S/patch.diff ] || { echo "no patch $S"; exit 2; }
[ -z "$(git -C /repo status --porcelain)" ] || { echo "/repo is not clean"; exit 2; }
results=""
for cid in $id $extra; do
  git -C /repo apply $S/patch.diff || { echo "cannot apply $seed to /repo"; exit 2; }
  out=$(cd $V && ./check $cid quick 2>&1); rc=$?
  git -C /repo checkout -q -- .
  git -C /repo clean -fdq
  if [ $rc -eq 1 ]; then r="CAUGHT by $cid: $(echo "$out" | grep -m1 violated | cut -c1-300)"; elif [ $rc -eq 0 ]; then r="MISSED by $cid"; else r="ERROR($rc) in $cid: $(echo "$out" | tail -2 | tr '\n' ' ' | cut -c1-300)"; fi
  echo "[$seed] $r"; results="$results$r\n"
done
git -C $V checkout -q -- evidence 2>/dev/null  # evidence written against a mutated tree is not evidence
python3 - "$S" "$(printf "$results")" <<'PY'
import json, sys
S,results=sys.argv[1:3]
m=json.load(open(S+'/meta.json'))
m["our_checks"]=[l for l in results.split("\n") if l]
json.dump(m,open(S+'/meta.json','w'),indent=1)
PY
