#!/usr/bin/env python3
"""Prints the markdown table of seeded changes (DESIGN.md section 13) from /verif/seeded/*/meta.json."""
import json, glob, os
rows=[]
for f in sorted(glob.glob(os.path.join(os.path.dirname(__file__),'..','seeded','*','meta.json'))):
    m=json.load(open(f))
    res=[]
    for r in m.get('our_checks',[]):
        r=r.strip()
        if r.startswith('CAUGHT'):
            chk=r.split()[2].rstrip(':'); orc=r.split('violated:')[1].split(':')[0].strip() if 'violated:' in r else ''
            res.append(f"**{chk}** ({orc})")
        elif r.startswith('MISSED'):
            res.append(f"missed by {r.split()[2]}")
        else:
            res.append(r[:40])
    conf=m.get('confirmed_by_us',{})
    ok = 'yes' if conf.get('demo_discriminates') and '0 missing' in conf.get('baseline','') else 'NO: '+conf.get('baseline','')[:40]
    title=(m.get('title') or '').replace('|','\\|')
    needs=(m.get('needs_to_manifest') or '').replace('|','\\|').replace('\n',' ')
    rows.append(f"| {m['seed']} | {title[:150]} | {needs[:160]} | {ok} | {'; '.join(res)} |")
print("| Seed | Change | Needs to manifest | Confirmed (builds, baseline, demo discriminates) | Our quick checks |")
print("|---|---|---|---|---|")
print("\n".join(rows))
