module verif/maporder

go 1.20
