// maporder rewrites, in a scratch copy of a Go module, every `range` over a map whose key
// type is orderable so that the iteration order is decided by verifsim.Keys (sorted, then
// permuted by the simulator) instead of by the Go runtime. See DESIGN.md 2.4.
//
// usage: maporder <module-root> <module-path>
package main

import (
	"fmt"
	"go/ast"
	"go/importer"
	"go/parser"
	"go/token"
	"go/types"
	"os"
	"path/filepath"
	"sort"
	"strings"
)

type edit struct {
	pos  int // byte offset
	end  int // == pos for pure insertion
	text string
	seq  int
}

const simPkg = `// Package verifsim is added to a scratch copy by the maporder tool (never to the repository).
package verifsim

import (
	"reflect"
	"sort"
)

type ordered interface {
	~int | ~int8 | ~int16 | ~int32 | ~int64 | ~uint | ~uint8 | ~uint16 | ~uint32 | ~uint64 | ~uintptr | ~float32 | ~float64 | ~string
}

// Perm, when set by a simulator, returns a permutation of 0..n-1 for the given site
// (nil means: keep sorted order).
var Perm func(site string, n int) []int

// Keys returns the keys of m sorted and then permuted by Perm.
func Keys[K ordered, V any](site string, m map[K]V) []K {
	keys := make([]K, 0, len(m))
	for k := range m {
		keys = append(keys, k)
	}
	sort.Slice(keys, func(i, j int) bool { return keys[i] < keys[j] })
	if f := Perm; f != nil && len(keys) > 1 {
		p := f(site, len(keys))
		if p == nil {
			return keys
		}
		out := make([]K, len(keys))
		for i, j := range p {
			out[i] = keys[j]
		}
		return out
	}
	return keys
}

// KeysPtr is Keys for pointer-keyed maps: the keys are ordered by address and then permuted.
func KeysPtr[K comparable, V any](site string, m map[K]V) []K {
	keys := make([]K, 0, len(m))
	for k := range m {
		keys = append(keys, k)
	}
	sort.Slice(keys, func(i, j int) bool { return reflect.ValueOf(keys[i]).Pointer() < reflect.ValueOf(keys[j]).Pointer() })
	if f := Perm; f != nil && len(keys) > 1 {
		p := f(site, len(keys))
		if p == nil {
			return keys
		}
		out := make([]K, len(keys))
		for i, j := range p {
			out[i] = keys[j]
		}
		return out
	}
	return keys
}
`

func main() {
	if len(os.Args) != 3 {
		fmt.Fprintln(os.Stderr, "usage: maporder <module-root> <module-path>")
		os.Exit(2)
	}
	root, modPath := os.Args[1], os.Args[2]
	if err := os.Chdir(root); err != nil {
		fmt.Fprintln(os.Stderr, "maporder:", err)
		os.Exit(2)
	}
	var dirs []string
	filepath.Walk(".", func(p string, fi os.FileInfo, err error) error {
		if err == nil && fi.IsDir() {
			if strings.HasPrefix(fi.Name(), ".") && p != "." || fi.Name() == "testdata" || fi.Name() == "verifsim" || fi.Name() == "verifharness" {
				return filepath.SkipDir
			}
			dirs = append(dirs, p)
		}
		return nil
	})
	sort.Strings(dirs)
	total, skipped := 0, 0
	fset := token.NewFileSet()
	imp := importer.ForCompiler(fset, "source", nil) // shared: std packages are checked once
	for _, dir := range dirs {
		pkgs, err := parser.ParseDir(fset, dir, func(fi os.FileInfo) bool { return !strings.HasSuffix(fi.Name(), "_test.go") }, parser.ParseComments)
		if err != nil || len(pkgs) == 0 {
			continue
		}
		var pkgNames []string
		for name := range pkgs {
			pkgNames = append(pkgNames, name)
		}
		sort.Strings(pkgNames)
		for _, name := range pkgNames {
			pkg := pkgs[name]
			var fnames []string
			for fn := range pkg.Files {
				fnames = append(fnames, fn)
			}
			sort.Strings(fnames)
			// Honour the verif build tag the way the checks build: drop files constrained to !verif.
			var files []*ast.File
			var keep []string
			for _, fn := range fnames {
				f := pkg.Files[fn]
				if hasConstraint(f, "!verif") {
					continue
				}
				files = append(files, f)
				keep = append(keep, fn)
			}
			fnames = keep
			info := &types.Info{Types: map[ast.Expr]types.TypeAndValue{}}
			conf := types.Config{Importer: imp, Error: func(err error) {}}
			conf.Check(name, fset, files, info)
			for i, f := range files {
				src, _ := os.ReadFile(fnames[i])
				var edits []edit
				n := 0
				labels := map[ast.Stmt]*ast.LabeledStmt{}
				ast.Inspect(f, func(nd ast.Node) bool {
					if ls, ok := nd.(*ast.LabeledStmt); ok {
						labels[ls.Stmt] = ls
					}
					rs, ok := nd.(*ast.RangeStmt)
					if !ok {
						return true
					}
					t := info.TypeOf(rs.X)
					if t == nil {
						return true
					}
					mt, ok := t.Underlying().(*types.Map)
					if !ok {
						return true
					}
					keysFunc := "Keys"
					if b, ok := mt.Key().Underlying().(*types.Basic); !ok || b.Info()&(types.IsOrdered) == 0 {
						if _, isPtr := mt.Key().Underlying().(*types.Pointer); isPtr {
							// pointer keys: ordered by address (allocation order in practice), then permuted
							keysFunc = "KeysPtr"
						} else {
							fmt.Fprintf(os.Stderr, "maporder: %s: key type %s not orderable, left alone\n", fset.Position(rs.Pos()), mt.Key())
							skipped++
							return true
						}
					}
					n++
					total++
					off := func(p token.Pos) int { return fset.Position(p).Offset }
					line := fset.Position(rs.Pos()).Line
					id := fmt.Sprintf("%d_%d", line, n)
					site := fmt.Sprintf("%s:%d", fnames[i], line)
					xText := string(src[off(rs.X.Pos()):off(rs.X.End())])
					start := off(rs.Pos())
					if ls := labels[rs]; ls != nil {
						start = off(ls.Pos())
					}
					mv, kv, okv := "__m"+id, "__k"+id, "__ok"+id
					edits = append(edits, edit{start, start, "{ " + mv + " := " + xText + "; ", len(edits)})
					keyText, valText := "", ""
					if rs.Key != nil {
						keyText = string(src[off(rs.Key.Pos()):off(rs.Key.End())])
					}
					if rs.Value != nil {
						valText = string(src[off(rs.Value.Pos()):off(rs.Value.End())])
					}
					var pre string
					loopKey := kv
					if rs.Tok == token.DEFINE && keyText != "" && keyText != "_" {
						loopKey = keyText
					}
					hdr := fmt.Sprintf("for _, %s := range verifsim.%s(%q, %s) ", loopKey, keysFunc, site, mv)
					switch {
					case valText != "" && valText != "_" && rs.Tok == token.DEFINE:
						pre = fmt.Sprintf(" %s, %s := %s[%s]; if !%s { continue };", valText, okv, mv, loopKey, okv)
					default:
						pre = fmt.Sprintf(" if _, %s := %s[%s]; !%s { continue };", okv, mv, loopKey, okv)
					}
					if rs.Tok == token.ASSIGN {
						if keyText != "" && keyText != "_" {
							pre += fmt.Sprintf(" %s = %s;", keyText, kv)
						}
						if valText != "" && valText != "_" {
							pre += fmt.Sprintf(" %s = %s[%s];", valText, mv, kv)
						}
					}
					// replace "for ... range X " up to the body's "{"
					edits = append(edits, edit{off(rs.Pos()), off(rs.Body.Lbrace), hdr, len(edits)})
					edits = append(edits, edit{off(rs.Body.Lbrace) + 1, off(rs.Body.Lbrace) + 1, pre, len(edits)})
					edits = append(edits, edit{off(rs.Body.Rbrace) + 1, off(rs.Body.Rbrace) + 1, " }", len(edits)})
					return true
				})
				if n == 0 {
					continue
				}
				// import right after the package clause
				pkgEnd := fset.Position(f.Name.End()).Offset
				edits = append(edits, edit{pkgEnd, pkgEnd, "; import verifsim \"" + modPath + "/internal/verifsim\"", len(edits)})
				sort.SliceStable(edits, func(a, b int) bool {
					if edits[a].pos != edits[b].pos {
						return edits[a].pos > edits[b].pos
					}
					return edits[a].seq > edits[b].seq
				})
				out := src
				for _, e := range edits {
					out = append(append(append([]byte{}, out[:e.pos]...), e.text...), out[e.end:]...)
				}
				if err := os.WriteFile(fnames[i], out, 0644); err != nil {
					fmt.Fprintln(os.Stderr, "maporder:", err)
					os.Exit(2)
				}
				fmt.Printf("maporder: %s: %d map range loops rewritten\n", fnames[i], n)
			}
		}
	}
	os.MkdirAll("internal/verifsim", 0755)
	if err := os.WriteFile("internal/verifsim/verifsim.go", []byte(simPkg), 0644); err != nil {
		fmt.Fprintln(os.Stderr, "maporder:", err)
		os.Exit(2)
	}
	fmt.Printf("maporder: total %d rewritten, %d left alone\n", total, skipped)
}

func hasConstraint(f *ast.File, want string) bool {
	for _, cg := range f.Comments {
		if cg.Pos() > f.Package {
			break
		}
		for _, c := range cg.List {
			if strings.HasPrefix(c.Text, "//go:build ") && strings.TrimSpace(strings.TrimPrefix(c.Text, "//go:build ")) == want {
				return true
			}
		}
	}
	return false
}
