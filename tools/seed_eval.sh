#!/bin/bash
# seed_eval.sh <ID> <k> [extra-check-ids...]: confirm a seeded change delivered by a sub-agent in
# /tmp/mut/w-<ID>/out/<k> (applies, builds, keeps the baseline, demo fails with / passes without),
# then run our quick check(s) against it in /repo and record the outcome under /verif/seeded/<ID>-<k>/.
set -u
export GOFLAGS=-mod=mod GOPROXY=off GOSUMDB=off GOTOOLCHAIN=local
id=$1; k=$2; shift 2; extra="$*"
OUTDIR=${OUTDIR:-out}; TAG=${TAG:-}; W=${WBASE:-/tmp/mut/w}-$id; O=$W/$OUTDIR/$k; V=/verif; S=$V/seeded/$id-$TAG$k
[ -f $O/patch.diff ] || { echo "no patch $O"; exit 2; }
cd $W && git checkout -q -- . && git clean -fdq -e 'out*'
demo=$(ls $O/*_test.go | head -1)
tests=$(grep -o 'func Test[A-Za-z0-9_]*' $demo | sed 's/func //' | paste -sd'|')
pkgline=$(grep -m1 '^package ' $demo)
race=""; grep -qi '\-race' $O/meta.json && race="-race"
rundemo() {
  local out rc
  if echo "$pkgline" | grep -q 'package interp'; then cp $demo $W/interp/zz_seed_demo_test.go; out=$(cd $W && go test $race -vet=off -count=1 -run "^($tests)\$" ./interp/ 2>&1); rc=$?; rm -f $W/interp/zz_seed_demo_test.go
  elif echo "$pkgline" | grep -q 'package parser'; then cp $demo $W/parser/zz_seed_demo_test.go; out=$(cd $W && go test $race -vet=off -count=1 -run "^($tests)\$" ./parser/ 2>&1); rc=$?; rm -f $W/parser/zz_seed_demo_test.go
  else out=$(cd $W && go test $race -vet=off -count=1 ./$OUTDIR/$k/ 2>&1); rc=$?; fi
  echo "$out" | tail -4
  return $rc
}
clean_out=$(rundemo); clean_rc=$?
git apply $O/patch.diff || { echo "patch does not apply"; exit 2; }
go build ./... || { echo "does not build"; git checkout -q -- .; exit 2; }
base=$(python3 /verif/tools/baseline_check.py $W | head -1)
mut_out=$(rundemo); mut_rc=$?
git checkout -q -- . && git clean -fdq -e 'out*'
echo "[$id-$TAG$k] demo clean rc=$clean_rc, with patch rc=$mut_rc; $base"
mkdir -p $S && cp $O/patch.diff $S/ && cp $demo $S/ && cp $O/meta.json $S/meta.agent.json
results=""
for cid in $id $extra; do
  if [ -n "${USE_WT:-}" ]; then
    # evaluate against the scratch worktree itself (VERIF_REPO), so that several seeds can be
    # evaluated at the same time; /repo is not touched
    git -C $W apply $O/patch.diff || { echo "cannot apply to $W"; exit 2; }
    out=$(cd $V && VERIF_REPO=$W ./check $cid quick 2>&1); rc=$?
    git -C $W checkout -q -- . && git -C $W clean -fdq -e 'out*'
  else
  git -C /repo apply $O/patch.diff || { echo "cannot apply to /repo"; exit 2; }
  out=$(cd $V && ./check $cid quick 2>&1); rc=$?
  git -C /repo checkout -q -- .
  fi
  if [ $rc -eq 1 ]; then r="CAUGHT by $cid: $(echo "$out" | grep -m1 violated | cut -c1-300)"; elif [ $rc -eq 0 ]; then r="MISSED by $cid"; else r="ERROR($rc) in $cid: $(echo "$out" | tail -2 | tr '\n' ' ' | cut -c1-300)"; fi
  echo "   $r"; results="$results$r\n"
done
[ -n "${KEEP_EVIDENCE:-}" ] || git -C $V checkout -q -- evidence 2>/dev/null  # evidence written against a mutated tree is not evidence
python3 - "$S" "$id" "$k" "$clean_rc" "$mut_rc" "$base" "$(printf "$results")" <<'PY'
import json, sys, os
S,id,k,crc,mrc,base,results=sys.argv[1:8]
a=json.load(open(S+'/meta.agent.json'))
m={"property":id,"seed":os.path.basename(S),"title":a.get("title"),"what_breaks":a.get("what_breaks"),"needs_to_manifest":a.get("needs_to_manifest"),
   "files_touched":a.get("files_touched"),"agent_demo_run":a.get("demo_run"),
   "confirmed_by_us":{"applies_and_builds":True,"baseline":base,"demo_on_clean_tree_rc":int(crc),"demo_with_patch_rc":int(mrc),"demo_discriminates":int(crc)==0 and int(mrc)!=0},
   "our_checks":[l for l in results.split("\n") if l]}
json.dump(m,open(S+'/meta.json','w'),indent=1)
PY
