#!/usr/bin/env python3
"""Run the repository's baseline test command (guard off unless --tags given) in a tree
and compare the set of passing tests with BASELINE.json's stable_pass list.
usage: baseline_check.py [repo_dir] [--tags verif]
exit 0 if every stable_pass test passed."""
import json, subprocess, sys, os
repo = '/repo'
tags = []
args = sys.argv[1:]
while args:
    a = args.pop(0)
    if a == '--tags': tags = ['-tags', args.pop(0)]
    else: repo = a
base = json.load(open('/root/.vp/BASELINE.json'))
want = set(base['stable_pass'])
env = dict(os.environ, GOFLAGS='-mod=mod', GOPROXY='off', GOSUMDB='off', GOTOOLCHAIN='local')
p = subprocess.run(['go', 'test', *tags, '-json', '-vet=off', '-count=1', '-timeout', '25m', './...'],
                   cwd=repo, env=env, stdout=subprocess.PIPE, stderr=subprocess.STDOUT, text=True)
passed = set()
for line in p.stdout.splitlines():
    try: ev = json.loads(line)
    except Exception: continue
    if ev.get('Action') == 'pass' and ev.get('Test'):
        passed.add(ev['Package'] + '::' + ev['Test'])
missing = sorted(want - passed)
print(f'baseline: {len(want)} stable tests, {len(want & passed)} passed, {len(missing)} missing')
for m in missing[:20]: print('  MISSING', m)
sys.exit(1 if missing else 0)
