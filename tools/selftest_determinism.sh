#!/bin/bash
# Determinism self-test (DESIGN.md 3.8): for every engine, the same scenario indices are run in
# several fresh processes under GOMAXPROCS 1, 4 and 16; the per-scenario event-log hashes and
# verdicts must be identical. usage: selftest_determinism.sh [count] [ids...]
set -u
export GOFLAGS=-mod=mod GOPROXY=off GOSUMDB=off GOTOOLCHAIN=local
V=$(cd "$(dirname "$0")/.." && pwd)
N=${1:-48}; shift || true
IDS=${*:-"C07 C08 C11 C12 C13 C14 C15 C19"}
D=$(mktemp -d /tmp/verif-det.XXXXXX); trap 'rm -rf $D' EXIT
"$V/check" build "$D/bin" >/dev/null || exit 2
export VERIF_SIMSH=$D/bin/simsh VERIF_GOAWK=$D/bin/goawk
mkdir -p $D/shm; export VERIF_SHM=$D/shm
rc=0
for id in $IDS; do
  i=0
  for seed in 1 77; do
    for p in 1 4 16 1 16; do
      i=$((i+1))
      (GOMAXPROCS=$p "$D/bin/simcheck" hashes $id --count $N --seed $seed --verif "$V" 2>&1 | cat > "$D/$id.$seed.$i.txt") &  # through a pipe: C12 programs open /dev/fd/1 with O_TRUNC
    done
    wait
    ref="$D/$id.$seed.$((i-4)).txt"
    for k in 3 2 1 0; do
      f="$D/$id.$seed.$((i-k)).txt"
      if ! cmp -s "$ref" "$f"; then echo "NONDETERMINISTIC $id seed=$seed:"; diff "$ref" "$f" | head -6; rc=1; fi
    done
  done
  echo "determinism $id: $(wc -l < "$ref") scenarios x 5 processes x 2 seeds compared"
done
exit $rc
