#!/bin/bash
# mkcorpus.sh <replay-file> <name> <expect> <note>: copy a replay file into /verif/corpus/<property>/<name>.json
set -e
prop=$(jq -r .property "$1"); mkdir -p "$(dirname "$0")/../corpus/$prop"
jq --arg e "$3" --arg n "$4" 'del(.log) | .expect=$e | .note=$n' "$1" > "$(dirname "$0")/../corpus/$prop/$2.json"
echo "corpus/$prop/$2.json"
