package core

import (
	"errors"
	"io"
)

// ErrInjectedRead is the read fault the simulator injects.
var ErrInjectedRead = errors.New("simulated read error")

// Delivery is the schedule by which a byte string reaches a reader.
type Delivery struct {
	// Chunks are the lengths handed out by successive Read calls; 0 is a legal (0, nil)
	// read. When the list is exhausted the rest is delivered in one Read.
	Chunks []int `json:"chunks,omitempty"`
	// EOFWithData makes the final data chunk come together with io.EOF.
	EOFWithData bool `json:"eof_with_data,omitempty"`
	// ErrAt >= 0 injects a read error once ErrAt bytes have been delivered (HasErr set).
	HasErr bool `json:"has_err,omitempty"`
	ErrAt  int  `json:"err_at,omitempty"`
}

// ReaderStats counts what a SimReader actually did.
type ReaderStats struct {
	Reads, ZeroReads, BufferCuts, Bytes, Errors, EOFWithData int
}

// SimReader delivers Data according to a Delivery. It never violates the io.Reader contract.
type SimReader struct {
	Name  string
	Data  []byte
	D     Delivery
	Stats *ReaderStats
	Log   *Log
	// Bounds collects the offsets at which a Read ended (delivery boundaries as the
	// consumer saw them, including cuts by the consumer's buffer).
	Bounds []int

	pos   int
	ci    int
	carry int
	zeros int
}

func NewSimReader(name string, data []byte, d Delivery, st *ReaderStats, log *Log) *SimReader {
	if st == nil {
		st = &ReaderStats{}
	}
	return &SimReader{Name: name, Data: data, D: d, Stats: st, Log: log}
}

func (r *SimReader) Read(p []byte) (int, error) {
	if len(p) == 0 {
		return 0, nil
	}
	r.Stats.Reads++
	if r.D.HasErr && r.pos >= r.D.ErrAt {
		r.Stats.Errors++
		r.Log.Addf("read %s err@%d", r.Name, r.pos)
		return 0, ErrInjectedRead
	}
	remaining := len(r.Data) - r.pos
	if remaining == 0 {
		r.Log.Addf("read %s eof", r.Name)
		return 0, io.EOF
	}
	n := remaining
	if r.carry > 0 {
		n, r.carry = r.carry, 0
	} else if r.ci < len(r.D.Chunks) {
		n = r.D.Chunks[r.ci]
		r.ci++
		if n < 0 {
			n = 0
		}
	}
	if n == 0 {
		// Keep far below bufio.Scanner's limit of 100 consecutive empty reads.
		r.zeros++
		if r.zeros <= 20 {
			r.Stats.ZeroReads++
			r.Log.Addf("read %s 0", r.Name)
			return 0, nil
		}
		n = 1
	}
	r.zeros = 0
	if n > remaining {
		n = remaining
	}
	if n > len(p) {
		r.carry = n - len(p)
		n = len(p)
		r.Stats.BufferCuts++
	}
	if r.D.HasErr && r.pos+n > r.D.ErrAt {
		n = r.D.ErrAt - r.pos
		r.carry = 0
		if n <= 0 {
			r.Stats.Errors++
			r.Log.Addf("read %s err@%d", r.Name, r.pos)
			return 0, ErrInjectedRead
		}
	}
	copy(p, r.Data[r.pos:r.pos+n])
	r.pos += n
	r.Stats.Bytes += n
	r.Bounds = append(r.Bounds, r.pos)
	if r.pos == len(r.Data) && r.D.EOFWithData && !(r.D.HasErr && r.D.ErrAt <= len(r.Data) && r.D.ErrAt >= r.pos) {
		r.Stats.EOFWithData++
		r.Log.Addf("read %s %d+eof", r.Name, n)
		return n, io.EOF
	}
	r.Log.Addf("read %s %d", r.Name, n)
	return n, nil
}

// Pos is the number of bytes delivered so far.
func (r *SimReader) Pos() int { return r.pos }

// ShapedReader applies a Delivery to the bytes of an underlying reader (a file or a pipe),
// which it drains completely on first use.
type ShapedReader struct {
	Under io.Reader
	Name  string
	D     Delivery
	Stats *ReaderStats
	Log   *Log
	sim   *SimReader
	err   error
}

func (s *ShapedReader) Read(p []byte) (int, error) {
	if s.sim == nil {
		data, err := io.ReadAll(s.Under)
		s.err = err
		s.sim = NewSimReader(s.Name, data, s.D, s.Stats, s.Log)
	}
	n, err := s.sim.Read(p)
	if err == io.EOF && s.err != nil {
		return n, s.err
	}
	return n, err
}

// Sim exposes the inner reader (nil before the first Read).
func (s *ShapedReader) Sim() *SimReader { return s.sim }

// Close closes the underlying reader if it is a Closer.
func (s *ShapedReader) Close() error {
	if c, ok := s.Under.(io.Closer); ok {
		return c.Close()
	}
	return nil
}
