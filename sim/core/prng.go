// Package core is the shared part of the deterministic simulator: PRNG, simulated reader,
// sink, file system and context, the event log, scenario (de)serialisation, the batch
// runner with minimisation and replay, evidence and known-findings handling.
package core

// Rand is a splitmix64 generator: the only source of randomness in the harness.
type Rand struct{ s uint64 }

func NewRand(seed uint64) *Rand { return &Rand{s: seed} }

func (r *Rand) Uint64() uint64 {
	r.s += 0x9e3779b97f4a7c15
	z := r.s
	z = (z ^ (z >> 30)) * 0xbf58476d1ce4e5b9
	z = (z ^ (z >> 27)) * 0x94d049bb133111eb
	return z ^ (z >> 31)
}

// Intn returns a value in [0,n); n<=0 yields 0.
func (r *Rand) Intn(n int) int {
	if n <= 0 {
		return 0
	}
	return int(r.Uint64() % uint64(n))
}

// Range returns a value in [lo,hi].
func (r *Rand) Range(lo, hi int) int {
	if hi <= lo {
		return lo
	}
	return lo + r.Intn(hi-lo+1)
}

func (r *Rand) Bool() bool { return r.Uint64()&1 == 1 }

// Chance is true with probability num/den.
func (r *Rand) Chance(num, den int) bool { return r.Intn(den) < num }

// Pick returns a random element of xs.
func Pick[T any](r *Rand, xs []T) T { return xs[r.Intn(len(xs))] }

// Perm returns a random permutation of 0..n-1.
func (r *Rand) Perm(n int) []int {
	p := make([]int, n)
	for i := range p {
		p[i] = i
	}
	for i := n - 1; i > 0; i-- {
		j := r.Intn(i + 1)
		p[i], p[j] = p[j], p[i]
	}
	return p
}

// Mix hashes several integers into one seed.
func Mix(xs ...uint64) uint64 {
	h := uint64(0x243f6a8885a308d3)
	for _, x := range xs {
		h ^= x + 0x9e3779b97f4a7c15 + (h << 6) + (h >> 2)
		h = (h ^ (h >> 30)) * 0xbf58476d1ce4e5b9
		h = (h ^ (h >> 27)) * 0x94d049bb133111eb
		h ^= h >> 31
	}
	return h
}

// HashString is FNV-1a 64.
func HashString(s string) uint64 {
	h := uint64(14695981039346656037)
	for i := 0; i < len(s); i++ {
		h ^= uint64(s[i])
		h *= 1099511628211
	}
	return h
}
