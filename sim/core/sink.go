package core

import (
	"errors"
	"sync"
	"sync/atomic"
)

// ErrInjectedWrite is the write fault the simulator injects.
var ErrInjectedWrite = errors.New("simulated write error: no space left on device")

// SimSink is an ordinary, non-thread-safe destination: it appends what it is given, can
// fail from a byte offset on, and detects overlapping Write calls.
type SimSink struct {
	Name string
	// FailAt >= 0: accept only bytes below this offset; a Write crossing it is short and
	// fails, as a full disk does. -1: never fail.
	FailAt int
	// FailErr is the error a failing Write returns (default ErrInjectedWrite).
	FailErr error
	// Transient: only one Write fails (short, with FailErr); the sink accepts everything again
	// afterwards, as a descriptor that reported EAGAIN once does.
	Transient bool
	Log     *Log
	// Gate, if set, is called on entry of every Write (before anything is recorded) and
	// may park the caller; used by the actor scheduler.
	Gate func(p []byte)
	// After, if set, is called when a Write has appended its bytes (still inside Write).
	After func(p []byte)
	// OnFail, if set, is called (inside Write) the first time a Write fails.
	OnFail func()

	mu       sync.Mutex
	buf      []byte
	inflight int32
	Overlaps int
	Writes   int
	Failed   int // number of Write calls that returned an error
	// FailedHeads holds the first byte of the data of each failed Write (attribution by content).
	FailedHeads []byte
}

func NewSimSink(name string, log *Log) *SimSink { return &SimSink{Name: name, FailAt: -1, Log: log} }

func (s *SimSink) Write(p []byte) (int, error) {
	if atomic.AddInt32(&s.inflight, 1) > 1 {
		s.mu.Lock()
		s.Overlaps++
		s.mu.Unlock()
	}
	defer atomic.AddInt32(&s.inflight, -1)
	if s.Gate != nil {
		s.Gate(p)
	}
	s.mu.Lock()
	defer s.mu.Unlock()
	s.Writes++
	n := len(p)
	var err error
	if s.FailAt >= 0 && len(s.buf)+n > s.FailAt {
		n = s.FailAt - len(s.buf)
		if n < 0 {
			n = 0
		}
		err = ErrInjectedWrite
		if s.FailErr != nil {
			err = s.FailErr
		}
		if s.Failed == 0 && s.OnFail != nil {
			s.OnFail()
		}
		s.Failed++
		if s.Transient {
			s.FailAt = -1
		}
		if len(p) > 0 {
			s.FailedHeads = append(s.FailedHeads, p[0])
		}
	}
	s.buf = append(s.buf, p[:n]...)
	if s.After != nil {
		s.After(p)
	}
	if s.Log != nil {
		if err != nil {
			s.Log.Addf("write %s %d/%d err", s.Name, n, len(p))
		} else {
			s.Log.Addf("write %s %d", s.Name, n)
		}
	}
	return n, err
}

// Bytes returns what was delivered so far.
func (s *SimSink) Bytes() []byte {
	s.mu.Lock()
	defer s.mu.Unlock()
	return append([]byte(nil), s.buf...)
}

func (s *SimSink) String() string { return string(s.Bytes()) }

// FlushSink is a sink with its own Flush method: data is pending until flushed; Flush can
// be made to fail (FlushFail) without any Write failing.
type FlushSink struct {
	Sink      *SimSink
	FlushFail bool
	pending   []byte
	Flushes   int
	FlushErrs int
}

func (f *FlushSink) Write(p []byte) (int, error) {
	f.pending = append(f.pending, p...)
	return len(p), nil
}

func (f *FlushSink) Flush() error {
	f.Flushes++
	if f.FlushFail {
		f.FlushErrs++
		return ErrInjectedWrite
	}
	if len(f.pending) == 0 {
		return nil
	}
	n, err := f.Sink.Write(f.pending)
	f.pending = f.pending[n:]
	if err != nil {
		f.FlushErrs++
	}
	return err
}
