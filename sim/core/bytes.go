package core

import (
	"encoding/json"
	"fmt"
	"strings"
)

// Bytes is a byte string that survives JSON losslessly and stays readable: every byte is
// written as the code point of the same value (ASCII as is, the rest as \u00XX).
type Bytes []byte

func (b Bytes) MarshalJSON() ([]byte, error) {
	var sb strings.Builder
	sb.WriteByte('"')
	for _, c := range []byte(b) {
		switch {
		case c == '"':
			sb.WriteString(`\"`)
		case c == '\\':
			sb.WriteString(`\\`)
		case c == '\n':
			sb.WriteString(`\n`)
		case c == '\r':
			sb.WriteString(`\r`)
		case c == '\t':
			sb.WriteString(`\t`)
		case c < 0x20 || c >= 0x7f || c == '<' || c == '>' || c == '&':
			fmt.Fprintf(&sb, `\u%04x`, c)
		default:
			sb.WriteByte(c)
		}
	}
	sb.WriteByte('"')
	return []byte(sb.String()), nil
}

func (b *Bytes) UnmarshalJSON(data []byte) error {
	var s string
	if err := json.Unmarshal(data, &s); err != nil {
		return err
	}
	out := make([]byte, 0, len(s))
	for _, r := range s {
		if r > 255 {
			return fmt.Errorf("Bytes: code point %U out of range", r)
		}
		out = append(out, byte(r))
	}
	*b = out
	return nil
}

func (b Bytes) String() string { return string(b) }

// Q quotes a byte string for messages.
func Q(s string) string { return fmt.Sprintf("%q", s) }
