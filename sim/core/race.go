package core

import (
	"bytes"
	"encoding/json"
	"fmt"
	"os"
	"os/exec"
	"path/filepath"
	"strconv"
	"strings"
	"time"
)

// RaceEngine is implemented by engines that have a secondary race-detector layer: real,
// unscheduled goroutines in a -race build. A report of the detector is never a false alarm,
// but it is not seed-replayable; the deciding step of the property stays the simulation.
type RaceEngine interface {
	Engine
	// GenRace draws the i-th scenario of the race layer.
	GenRace(r *Rand, i int) any
}

// RaceWorker runs scenarios lo..hi-1 in this (race-instrumented) process, recording the
// index it is working on in progressPath. A data race makes the process exit with 66
// (GORACE=halt_on_error=1 exitcode=66); an oracle failure with 1.
func RaceWorker(id string, seed uint64, lo, hi int, progressPath string) int {
	e, ok := Lookup(id).(RaceEngine)
	if !ok {
		Fatal("engine %q has no race layer", id)
	}
	evals := 0
	for i := lo; i < hi; i++ {
		_ = os.WriteFile(progressPath, []byte(strconv.Itoa(i)), 0644)
		sc := e.GenRace(NewRand(Mix(seed, HashString(id+"/race"), uint64(i))), i)
		out := SafeRun(e, sc, false)
		evals += out.Evals
		if out.Fail != nil && out.Fail.Known == "" {
			b, _ := json.Marshal(sc)
			fmt.Printf("RACE-LAYER-FAIL index=%d oracle=%s detail=%s\nSCENARIO %s\n", i, out.Fail.Oracle, strings.ReplaceAll(out.Fail.Detail, "\n", "\\n"), b)
			return 1
		}
	}
	_ = os.WriteFile(progressPath, []byte("done "+strconv.Itoa(evals)), 0644)
	return 0
}

// RaceMain is the parent of the race layer: `simcheck race <ID>`.
func RaceMain(id string, seed uint64, count, workers int, verifDir, self string) int {
	if !RaceEnabled {
		Fatal("the race layer needs a harness built with -race (use ./check race %s)", id)
	}
	e, ok := Lookup(id).(RaceEngine)
	if !ok {
		Fatal("engine %q has no race layer", id)
	}
	start := time.Now()
	tmp, err := os.MkdirTemp("", "simrace")
	if err != nil {
		Fatal("tmp: %v", err)
	}
	defer os.RemoveAll(tmp)
	if workers < 1 {
		workers = 4
	}
	type proc struct {
		cmd      *exec.Cmd
		out      *bytes.Buffer
		progress string
		lo, hi   int
	}
	var procs []proc
	per := (count + workers - 1) / workers
	for w := 0; w < workers; w++ {
		lo, hi := w*per, (w+1)*per
		if hi > count {
			hi = count
		}
		if lo >= hi {
			break
		}
		progress := filepath.Join(tmp, fmt.Sprintf("p%d", w))
		cmd := exec.Command(self, "race-worker", "--id", id, "--seed", strconv.FormatUint(seed, 10), "--lo", strconv.Itoa(lo), "--hi", strconv.Itoa(hi), "--result", progress, "--verif", verifDir)
		cmd.Env = append(os.Environ(), "GORACE=halt_on_error=1 exitcode=66")
		var buf bytes.Buffer
		cmd.Stdout, cmd.Stderr = &buf, &buf
		if err := cmd.Start(); err != nil {
			Fatal("start race worker: %v", err)
		}
		procs = append(procs, proc{cmd, &buf, progress, lo, hi})
	}
	evals, scenarios := 0, 0
	var violations []string
	for _, p := range procs {
		err := p.cmd.Wait()
		code := 0
		if ee, ok := err.(*exec.ExitError); ok {
			code = ee.ExitCode()
		} else if err != nil {
			Fatal("race worker: %v", err)
		}
		pb, _ := os.ReadFile(p.progress)
		prog := strings.TrimSpace(string(pb))
		switch code {
		case 0:
			scenarios += p.hi - p.lo
			if strings.HasPrefix(prog, "done ") {
				n, _ := strconv.Atoi(prog[5:])
				evals += n
			}
		case 66, 1:
			idx, _ := strconv.Atoi(prog)
			sc := e.GenRace(NewRand(Mix(seed, HashString(id+"/race"), uint64(idx))), idx)
			oracle, detail := "data-race", "the race detector reported a data race while several goroutines executed one shared Program:\n"+tailString(p.out.String(), 6000)
			if code == 1 {
				oracle, detail = "race-layer-oracle", tailString(p.out.String(), 3000)
			}
			rf := &ReplayFile{Property: id, Seed: seed, Index: idx, Tier: "race", Oracle: oracle, Detail: detail, Scenario: scenarioJSON(sc),
				Note: "race layer (real goroutines, -race build): re-run with ./check replay <file>; detection is vector-clock based, not schedule-replayable"}
			path := writeReplay(filepath.Join(verifDir, "replays", id), rf)
			violations = append(violations, path)
			fmt.Printf("  violated: %s: %s\n", oracle, firstLines(detail, 12))
		default:
			fmt.Fprintf(os.Stderr, "%s", p.out.String())
			Fatal("race worker exited with %d", code)
		}
	}
	wall := time.Since(start).Seconds()
	res := map[string]any{"scenarios": scenarios, "executions": evals, "wall_s": wall, "violations": len(violations), "seed": seed,
		"note": "secondary layer: real unscheduled goroutines in a -race build; sound (a report is a real race) but not seed-replayable"}
	b, _ := json.MarshalIndent(res, "", " ")
	_ = os.MkdirAll(filepath.Join(verifDir, "evidence"), 0755)
	_ = b
	// merge into the evidence file written by the simulation batch of the same check run
	evPath := filepath.Join(verifDir, "evidence", id+".json")
	if eb, err := os.ReadFile(evPath); err == nil {
		var ev map[string]any
		if json.Unmarshal(eb, &ev) == nil {
			if cov, ok := ev["coverage"].(map[string]any); ok {
				cov["race_layer"] = res
				if n, ok := ev["violations"].(float64); ok {
					ev["violations"] = int(n) + len(violations)
				}
				if w, ok := ev["wall_s"].(float64); ok {
					ev["wall_s"] = w + wall
				}
				nb, _ := json.MarshalIndent(ev, "", " ")
				_ = os.WriteFile(evPath, append(nb, '\n'), 0644)
			}
		}
	}
	fmt.Printf("RACE-LAYER property=%s scenarios=%d executions=%d wall=%.1fs violations=%d\n", id, scenarios, evals, wall, len(violations))
	for _, v := range violations {
		fmt.Printf("VIOLATION property=%s replay=%s\n", id, v)
	}
	if len(violations) > 0 {
		return 1
	}
	return 0
}

// RaceReplay re-runs a race-layer scenario several times in a child process under the
// race detector.
func RaceReplay(path, self, verifDir string) int {
	rf, _, _ := LoadReplay(path)
	if !RaceEnabled {
		Fatal("replaying a race-layer file needs a -race build (./check replay does that)")
	}
	for attempt := 0; attempt < 5; attempt++ {
		cmd := exec.Command(self, "race-one", "--verif", verifDir, path)
		cmd.Env = append(os.Environ(), "GORACE=halt_on_error=1 exitcode=66")
		out, err := cmd.CombinedOutput()
		code := 0
		if ee, ok := err.(*exec.ExitError); ok {
			code = ee.ExitCode()
		}
		if code == 66 || code == 1 {
			fmt.Printf("REPLAY-FAIL property=%s oracle=%s\n%s\n", rf.Property, rf.Oracle, firstLines(tailString(string(out), 4000), 30))
			fmt.Printf("VIOLATION property=%s replay=%s\n", rf.Property, path)
			return 1
		}
	}
	fmt.Printf("REPLAY-PASS property=%s file=%s (no race report in 5 attempts)\n", rf.Property, path)
	return 0
}

func tailString(s string, n int) string {
	if len(s) > n {
		return s[len(s)-n:]
	}
	return s
}

func firstLines(s string, n int) string {
	lines := strings.Split(s, "\n")
	if len(lines) > n {
		lines = lines[:n]
	}
	return strings.Join(lines, "\n")
}
