package core

import (
	"bytes"
	"encoding/json"
	"fmt"
	"os"
	"os/exec"
	"path/filepath"
	"runtime"
	"runtime/debug"
	"sort"
	"strconv"
	"strings"
	"time"
)

// ReplayFile is the self-contained record of a (minimised) failing scenario.
type ReplayFile struct {
	Property string          `json:"property"`
	Seed     uint64          `json:"seed"`
	Index    int             `json:"index"`
	Tier     string          `json:"tier,omitempty"`
	Oracle   string          `json:"oracle"`
	Detail   string          `json:"detail"`
	Known    string          `json:"known,omitempty"`
	LogHash  string          `json:"log_hash,omitempty"`
	Expect   string          `json:"expect,omitempty"` // corpus files: "pass" | "known:<id>" | "fail:<oracle>"
	Note     string          `json:"note,omitempty"`
	Scenario json.RawMessage `json:"scenario"`
	Log      []string        `json:"log,omitempty"`
}

// WorkerResult is what one worker process reports.
type WorkerResult struct {
	Evaluations int               `json:"evaluations"`
	Scenarios   int               `json:"scenarios"`
	Hashes      []uint64          `json:"hashes"` // nontrivial executions only
	Trivial     int               `json:"trivial"`
	Probes      map[string]int    `json:"probes"`
	SimTime     int64             `json:"sim_time"`
	Samples     []json.RawMessage `json:"samples"`
	Violations  []string          `json:"violations"` // replay file paths
	ViolOracles []string          `json:"viol_oracles"`
	Known       map[string]int    `json:"known"`
	KnownWit    map[string]string `json:"known_witness"`
	WallS       float64           `json:"wall_s"`
	TimedOut    bool              `json:"timed_out"`
	LastIndex   int               `json:"last_index"`
}

// Opts are the options of a batch.
type Opts struct {
	ID       string
	Tier     string
	Seed     uint64
	VerifDir string
	Workers  int
	BudgetS  int
	Count    int
	Self     string // path of this binary
}

const exitHarness = 2

// Fatal reports harness trouble (never a violation) and exits 2.
func Fatal(format string, args ...any) {
	fmt.Fprintf(os.Stderr, "HARNESS-ERROR: "+format+"\n", args...)
	os.Exit(exitHarness)
}

func scenarioJSON(sc any) json.RawMessage {
	b, err := json.Marshal(sc)
	if err != nil {
		Fatal("marshal scenario: %v", err)
	}
	return b
}

// SafeRun runs a scenario and turns a panic of the harness itself into exit 2. (Engines
// recover panics of the system under test themselves and report them as failures.)
func SafeRun(e Engine, sc any, keep bool) (out Outcome) {
	defer func() {
		if r := recover(); r != nil {
			b, _ := json.Marshal(sc)
			Fatal("panic in harness while running %s scenario %s: %v\n%s", e.ID(), b, r, debug.Stack())
		}
	}()
	return e.Run(sc, keep)
}

// Shrinking is true while candidate scenarios of the minimiser run: an engine may then treat
// an ill-formed candidate (e.g. a generated program that no longer parses) as "does not fail"
// instead of as harness trouble.
var Shrinking bool

// Minimise shrinks a failing scenario while the same oracle still fails and no known
// finding explains it.
func Minimise(e Engine, sc any, fail *Failure, maxAttempts int, maxDur time.Duration) (any, *Failure, int) {
	start := time.Now()
	attempts := 0
	cur, curFail := sc, fail
	Shrinking = true
	defer func() { Shrinking = false }()
	for {
		changed := false
		for _, cand := range e.Shrink(cur) {
			if attempts >= maxAttempts || time.Since(start) > maxDur {
				return cur, curFail, attempts
			}
			attempts++
			out := SafeRun(e, cand, false)
			if out.Fail != nil && out.Fail.Oracle == fail.Oracle && out.Fail.Known == fail.Known {
				cur, curFail = cand, out.Fail
				if out.Reduced != nil {
					cur = out.Reduced
				}
				changed = true
				break
			}
		}
		if !changed {
			return cur, curFail, attempts
		}
	}
}

func writeReplay(dir string, rf *ReplayFile) string {
	if err := os.MkdirAll(dir, 0755); err != nil {
		Fatal("mkdir %s: %v", dir, err)
	}
	b, _ := json.MarshalIndent(rf, "", " ")
	name := fmt.Sprintf("%d-%d-%016x.json", rf.Seed, rf.Index, HashString(string(rf.Scenario)))
	path := filepath.Join(dir, name)
	if err := os.WriteFile(path, append(b, '\n'), 0644); err != nil {
		Fatal("write %s: %v", path, err)
	}
	return path
}

// RunWorker executes the scenario indices widx, widx+nw, ... and writes a WorkerResult.
func RunWorker(o Opts, widx, nw int, resultPath string) {
	e := Lookup(o.ID)
	if e == nil {
		Fatal("unknown engine %q", o.ID)
	}
	start := time.Now()
	deadline := start.Add(time.Duration(o.BudgetS) * time.Second)
	res := WorkerResult{Probes: map[string]int{}, Known: map[string]int{}, KnownWit: map[string]string{}}
	var watchdog *time.Timer
	var curSc any
	arm := func() {
		if watchdog != nil {
			watchdog.Stop()
		}
		watchdog = time.AfterFunc(120*time.Second, func() {
			b, _ := json.Marshal(curSc)
			buf := make([]byte, 1<<20)
			n := runtime.Stack(buf, true)
			Fatal("watchdog: %s scenario did not finish in 120 s: %s\n%s", o.ID, b, buf[:n])
		})
	}
	idHash := HashString(o.ID)
	for i := widx; i < o.Count; i += nw {
		if time.Now().After(deadline) {
			res.TimedOut = true
			break
		}
		res.LastIndex = i
		sc := e.Gen(NewRand(Mix(o.Seed, idHash, uint64(i))), o.Tier, i)
		curSc = sc
		arm()
		out := SafeRun(e, sc, false)
		res.Scenarios++
		res.Evaluations += out.Evals
		res.SimTime += out.SimTime
		for k, h := range out.Hashes {
			if out.Nontrivial[k] {
				if len(res.Hashes) < 3_000_000 {
					res.Hashes = append(res.Hashes, h)
				}
			} else {
				res.Trivial++
			}
		}
		for k, v := range out.Probes {
			res.Probes[k] += v
		}
		if len(res.Samples) < 2 && widx == 0 {
			res.Samples = append(res.Samples, scenarioJSON(sc))
		}
		if out.Fail == nil {
			continue
		}
		failing := sc
		if out.Reduced != nil {
			failing = out.Reduced
		}
		if out.Fail.Known != "" {
			res.Known[out.Fail.Known]++
			if _, ok := res.KnownWit[out.Fail.Known]; !ok {
				res.KnownWit[out.Fail.Known] = string(scenarioJSON(failing))
			}
			continue
		}
		// A violation: minimise, record, and stop this worker after a few.
		arm()
		if watchdog != nil {
			watchdog.Stop()
		}
		min, minFail, attempts := Minimise(e, failing, out.Fail, 3000, 90*time.Second)
		arm()
		final := SafeRun(e, min, true)
		note := fmt.Sprintf("minimised in %d attempts", attempts)
		if final.Fail == nil || final.Fail.Oracle != out.Fail.Oracle {
			// The minimised scenario does not fail again. Fall back to the scenario as generated;
			// if that does not fail again either, the failure depends on something the simulator
			// does not control (real-time scheduling of free-running children): inconclusive,
			// counted and shown, never reported as a violation.
			min, note = failing, "not minimised (the minimised scenario did not fail again)"
			final = Outcome{}
			for try := 0; try < 3; try++ {
				arm()
				f := SafeRun(e, failing, true)
				if f.Fail != nil && f.Fail.Oracle == out.Fail.Oracle {
					final = f
					break
				}
			}
			if final.Fail == nil {
				res.Probes["inconclusive:failure_did_not_reproduce"]++
				fmt.Printf("NOTE: a failure of %s did not reproduce when its scenario was run again (%s: %s); inconclusive, not reported. scenario: %s\n",
					o.ID, out.Fail.Oracle, firstLines(out.Fail.Detail, 2), scenarioJSON(failing))
				continue
			}
		}
		_ = minFail
		rf := &ReplayFile{Property: o.ID, Seed: o.Seed, Index: i, Tier: o.Tier, Oracle: final.Fail.Oracle,
			Detail: final.Fail.Detail, LogHash: hashOf(final), Scenario: scenarioJSON(min), Log: tail(final.Log, 200),
			Note: note}
		path := writeReplay(filepath.Join(o.VerifDir, "replays", o.ID), rf)
		res.Violations = append(res.Violations, path)
		res.ViolOracles = append(res.ViolOracles, final.Fail.Oracle+": "+final.Fail.Detail)
		if len(res.Violations) >= 1 {
			break
		}
	}
	if watchdog != nil {
		watchdog.Stop()
	}
	res.WallS = time.Since(start).Seconds()
	b, _ := json.Marshal(res)
	if err := os.WriteFile(resultPath, b, 0644); err != nil {
		Fatal("write %s: %v", resultPath, err)
	}
}

func tail(xs []string, n int) []string {
	if len(xs) > n {
		return xs[len(xs)-n:]
	}
	return xs
}

func hashOf(o Outcome) string {
	h := uint64(0)
	for _, x := range o.Hashes {
		h = Mix(h, x)
	}
	return fmt.Sprintf("%016x", h)
}

// ReplayResult of running a replay/corpus file in this process.
type ReplayResult struct {
	File *ReplayFile
	Out  Outcome
}

// LoadReplay reads a replay file and decodes its scenario with the engine.
func LoadReplay(path string) (*ReplayFile, Engine, any) {
	b, err := os.ReadFile(path)
	if err != nil {
		Fatal("read %s: %v", path, err)
	}
	var rf ReplayFile
	if err := json.Unmarshal(b, &rf); err != nil {
		Fatal("parse %s: %v", path, err)
	}
	e := Lookup(rf.Property)
	if e == nil {
		Fatal("replay %s: unknown property %q", path, rf.Property)
	}
	sc := e.NewScenario()
	dec := json.NewDecoder(bytes.NewReader(rf.Scenario))
	dec.DisallowUnknownFields()
	if err := dec.Decode(sc); err != nil {
		Fatal("replay %s: scenario: %v", path, err)
	}
	return &rf, e, sc
}

// ReplayMain implements `simcheck replay <file>`: exit 1 with a VIOLATION line if the
// scenario fails and no open known finding explains it.
func ReplayMain(path string, verbose bool) int {
	rf, e, sc := LoadReplay(path)
	out := SafeRun(e, sc, true)
	if verbose {
		for _, l := range out.Log {
			fmt.Println("  log:", l)
		}
	}
	fmt.Printf("REPLAY property=%s log_hash=%s evals=%d\n", rf.Property, hashOf(out), out.Evals)
	if out.Fail == nil {
		fmt.Printf("REPLAY-PASS property=%s file=%s\n", rf.Property, path)
		return 0
	}
	fmt.Printf("REPLAY-FAIL property=%s oracle=%s known=%q\n  %s\n", rf.Property, out.Fail.Oracle, out.Fail.Known, out.Fail.Detail)
	if out.Fail.Known != "" {
		fmt.Printf("KNOWN-FINDING: property=%s %s\n", rf.Property, out.Fail.Known)
		return 0
	}
	fmt.Printf("VIOLATION property=%s replay=%s\n", rf.Property, path)
	return 1
}

// evidence is the schema-conformant evidence document.
type evidence struct {
	PropertyID  string         `json:"property_id"`
	Tier        string         `json:"tier"`
	Seed        uint64         `json:"seed"`
	Level       string         `json:"level"`
	Coverage    map[string]any `json:"coverage"`
	Assumptions []string       `json:"assumptions"`
	WallS       float64        `json:"wall_s"`
	Violations  int            `json:"violations"`
}

// RunBatch is the parent: corpus first, then the seeded batch over worker processes, then
// verification of every reported violation in a fresh process, evidence, exit code.
func RunBatch(o Opts) int {
	e := Lookup(o.ID)
	if e == nil {
		Fatal("unknown engine %q (have %v)", o.ID, EngineIDs())
	}
	start := time.Now()
	fmt.Printf("VERIF_SEED=%d property=%s tier=%s\n", o.Seed, o.ID, o.Tier)
	if o.Count == 0 {
		o.Count = e.Count(o.Tier)
	}
	if o.BudgetS == 0 {
		o.BudgetS = e.BudgetS(o.Tier)
	}
	if o.Workers == 0 {
		o.Workers = e.Workers(o.Tier)
	}
	if o.Workers == 0 {
		o.Workers = runtime.NumCPU()
	}
	if o.Workers > o.Count {
		o.Workers = o.Count
	}
	if o.Workers < 1 {
		o.Workers = 1
	}
	violations := []string{}
	violDetail := []string{}
	knownHits := map[string]int{}
	knownWit := map[string]string{}
	corpusRuns := 0
	var samples []json.RawMessage

	// 1. Corpus: minimised scenarios of everything ever confirmed.
	corpusDir := filepath.Join(o.VerifDir, "corpus", o.ID)
	files, _ := filepath.Glob(filepath.Join(corpusDir, "*.json"))
	sort.Strings(files)
	for _, f := range files {
		rf, _, sc := LoadReplay(f)
		out := SafeRun(e, sc, false)
		corpusRuns++
		switch {
		case out.Fail == nil:
			if strings.HasPrefix(rf.Expect, "known:") {
				fmt.Printf("NOTE: corpus %s expected %s but the scenario passes now (finding fixed?)\n", filepath.Base(f), rf.Expect)
			}
		case out.Fail.Known != "":
			knownHits[out.Fail.Known]++
			if _, ok := knownWit[out.Fail.Known]; !ok {
				knownWit[out.Fail.Known] = string(rf.Scenario)
			}
		default:
			// A scenario of the corpus fails without an open finding explaining it.
			nrf := &ReplayFile{Property: o.ID, Seed: o.Seed, Index: -1, Tier: o.Tier, Oracle: out.Fail.Oracle, Detail: out.Fail.Detail,
				Scenario: rf.Scenario, Note: "corpus scenario " + filepath.Base(f) + " (" + rf.Note + ")"}
			p := writeReplay(filepath.Join(o.VerifDir, "replays", o.ID), nrf)
			violations = append(violations, p)
			violDetail = append(violDetail, out.Fail.Oracle+": "+out.Fail.Detail)
		}
	}

	// 2. Seeded batch.
	tmp, err := os.MkdirTemp("", "simres")
	if err != nil {
		Fatal("tmp: %v", err)
	}
	defer os.RemoveAll(tmp)
	type proc struct {
		cmd *exec.Cmd
		out *bytes.Buffer
		res string
	}
	var procs []proc
	for w := 0; w < o.Workers; w++ {
		res := filepath.Join(tmp, fmt.Sprintf("w%d.json", w))
		cmd := exec.Command(o.Self, "worker", "--id", o.ID, "--tier", o.Tier, "--seed", strconv.FormatUint(o.Seed, 10),
			"--verif", o.VerifDir, "--widx", strconv.Itoa(w), "--nw", strconv.Itoa(o.Workers),
			"--count", strconv.Itoa(o.Count), "--budget", strconv.Itoa(o.BudgetS), "--result", res)
		var buf bytes.Buffer
		cmd.Stdout = &buf
		cmd.Stderr = &buf
		if err := cmd.Start(); err != nil {
			Fatal("start worker: %v", err)
		}
		procs = append(procs, proc{cmd, &buf, res})
	}
	total := WorkerResult{Probes: map[string]int{}}
	distinct := map[uint64]struct{}{}
	timedOut := false
	for w, p := range procs {
		err := p.cmd.Wait()
		if err != nil {
			fmt.Fprintf(os.Stderr, "%s", p.out.String())
			Fatal("worker %d failed: %v", w, err)
		}
		b, err := os.ReadFile(p.res)
		if err != nil {
			fmt.Fprintf(os.Stderr, "%s", p.out.String())
			Fatal("worker %d left no result: %v", w, err)
		}
		var r WorkerResult
		if err := json.Unmarshal(b, &r); err != nil {
			Fatal("worker %d result: %v", w, err)
		}
		total.Evaluations += r.Evaluations
		total.Scenarios += r.Scenarios
		total.Trivial += r.Trivial
		total.SimTime += r.SimTime
		timedOut = timedOut || r.TimedOut
		for _, h := range r.Hashes {
			distinct[h] = struct{}{}
		}
		for k, v := range r.Probes {
			total.Probes[k] += v
		}
		samples = append(samples, r.Samples...)
		violations = append(violations, r.Violations...)
		violDetail = append(violDetail, r.ViolOracles...)
		for k, v := range r.Known {
			knownHits[k] += v
			if _, ok := knownWit[k]; !ok {
				knownWit[k] = r.KnownWit[k]
			}
		}
	}

	// 3. Every violation must reproduce from its replay file in a fresh process.
	confirmed := []string{}
	confirmedDetail := []string{}
	unreproducible := 0
	for i, v := range violations {
		ok := false
		var lastOut []byte
		code := 0
		for try := 0; try < 3 && !ok; try++ {
			cmd := exec.Command(o.Self, "replay", "--verif", o.VerifDir, v)
			outb, err := cmd.CombinedOutput()
			lastOut = outb
			code = 0
			if ee, isExit := err.(*exec.ExitError); isExit {
				code = ee.ExitCode()
			} else if err != nil {
				Fatal("replay %s: %v", v, err)
			}
			if code == exitHarness {
				fmt.Fprintf(os.Stderr, "%s", outb)
				Fatal("replaying %s ended with harness trouble", v)
			}
			ok = code == 1 && bytes.Contains(outb, []byte("VIOLATION property="+o.ID))
		}
		if !ok {
			// Not reproducible from its replay file in a fresh process: whatever it was, it is not
			// a function of the scenario; never reported as a violation.
			unreproducible++
			fmt.Printf("NOTE: %s (%s) did not reproduce from its replay file in a fresh process (3 attempts, last exit %d); inconclusive, not reported\n%s\n", v, firstLines(violDetail[i], 2), code, firstLines(string(lastOut), 6))
			continue
		}
		confirmed = append(confirmed, v)
		confirmedDetail = append(confirmedDetail, violDetail[i])
	}
	violDetail = confirmedDetail
	if unreproducible > 0 {
		total.Probes["inconclusive:violation_did_not_reproduce_in_fresh_process"] += unreproducible
	}

	// 4. Evidence.
	wall := time.Since(start).Seconds()
	var sampleVals []any
	for i, s := range samples {
		if i >= 3 {
			break
		}
		var v any
		_ = json.Unmarshal(s, &v)
		sampleVals = append(sampleVals, v)
	}
	for id, wsc := range knownWit {
		var v any
		_ = json.Unmarshal([]byte(wsc), &v)
		sampleVals = append(sampleVals, map[string]any{"known_finding": id, "scenario": v})
	}
	if len(sampleVals) == 0 {
		sampleVals = append(sampleVals, "no scenario was generated")
	}
	probes := map[string]int{}
	for k, v := range total.Probes {
		probes[k] = v
	}
	evals := total.Evaluations + corpusRuns
	cov := map[string]any{
		"evaluations":             evals,
		"distinct_nontrivial":     len(distinct),
		"rule":                    e.Rule(),
		"samples":                 sampleVals,
		"scenarios":               total.Scenarios,
		"trivial_executions":      total.Trivial,
		"corpus_replayed":         corpusRuns,
		"probes_and_faults_fired": probes,
		"simulated_time_us":       total.SimTime,
		"runs_per_hour":           int(float64(evals) / wall * 3600),
		"workers":                 o.Workers,
		"budget_exhausted":        timedOut,
		"scenario_indices":        fmt.Sprintf("0..%d (seed-derived, one PRNG per index)", o.Count-1),
		"components":              e.Components(),
		"known_findings_hit":      knownHits,
		"exhaustive":              false,
	}
	ev := evidence{PropertyID: o.ID, Tier: o.Tier, Seed: o.Seed, Level: e.Level(o.Tier), Coverage: cov,
		Assumptions: e.Assumptions(), WallS: wall, Violations: len(confirmed)}
	if ev.Assumptions == nil {
		ev.Assumptions = []string{}
	}
	evb, _ := json.MarshalIndent(ev, "", " ")
	evDir := filepath.Join(o.VerifDir, "evidence")
	_ = os.MkdirAll(evDir, 0755)
	if err := os.WriteFile(filepath.Join(evDir, o.ID+".json"), append(evb, '\n'), 0644); err != nil {
		Fatal("write evidence: %v", err)
	}

	// 5. Report.
	fmt.Printf("SUMMARY property=%s scenarios=%d executions=%d distinct_nontrivial=%d corpus=%d wall=%.1fs budget_exhausted=%v\n",
		o.ID, total.Scenarios, evals, len(distinct), corpusRuns, wall, timedOut)
	var pk []string
	for k := range probes {
		pk = append(pk, k)
	}
	sort.Strings(pk)
	for _, k := range pk {
		fmt.Printf("  probe %-44s %d\n", k, probes[k])
	}
	for _, f := range OpenFindings(o.ID) {
		hit := knownHits[f.ID]
		fmt.Printf("KNOWN-FINDING: property=%s %s %s (hit %d times in this run)\n", o.ID, f.ID, f.What, hit)
	}
	for i, v := range confirmed {
		fmt.Printf("  violated: %s\n", violDetail[i])
		fmt.Printf("VIOLATION property=%s replay=%s\n", o.ID, v)
	}
	if len(confirmed) > 0 {
		return 1
	}
	return 0
}
