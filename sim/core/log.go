package core

import "fmt"

// Log is the event log of one simulated run. Appending consults no PRNG and no clock. The
// running hash identifies the execution; the text is kept only when Keep is set (replay).
type Log struct {
	Keep  bool
	Lines []string
	h     uint64
	n     int
}

func NewLog(keep bool) *Log { return &Log{Keep: keep, h: 14695981039346656037} }

func (l *Log) Add(s string) {
	if l == nil {
		return
	}
	for i := 0; i < len(s); i++ {
		l.h ^= uint64(s[i])
		l.h *= 1099511628211
	}
	l.h ^= 0xff
	l.h *= 1099511628211
	l.n++
	if l.Keep {
		l.Lines = append(l.Lines, s)
	}
}

func (l *Log) Addf(format string, args ...any) {
	if l == nil {
		return
	}
	l.Add(fmt.Sprintf(format, args...))
}

func (l *Log) Hash() uint64 { return l.h }
func (l *Log) Len() int     { return l.n }
