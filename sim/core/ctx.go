package core

import (
	"context"
	"sync"
	"time"
)

// SimContext is a context.Context whose cancellation instant is decided by the simulator.
type SimContext struct {
	mu   sync.Mutex
	done chan struct{}
	err  error
}

func NewSimContext() *SimContext { return &SimContext{done: make(chan struct{})} }

func (c *SimContext) Deadline() (time.Time, bool) { return time.Time{}, false }
func (c *SimContext) Done() <-chan struct{}       { return c.done }
func (c *SimContext) Value(key any) any           { return nil }

func (c *SimContext) Err() error {
	c.mu.Lock()
	defer c.mu.Unlock()
	return c.err
}

// Cancel closes the context with err (context.Canceled or context.DeadlineExceeded).
func (c *SimContext) Cancel(err error) {
	c.mu.Lock()
	defer c.mu.Unlock()
	if c.err != nil {
		return
	}
	if err == nil {
		err = context.Canceled
	}
	c.err = err
	close(c.done)
}

// Cancelled reports whether Cancel has been called.
func (c *SimContext) Cancelled() bool { return c.Err() != nil }
