package core

import (
	"bufio"
	"fmt"
	"net"
	"os"
	"path/filepath"
	"strconv"
	"strings"
	"sync"
	"syscall"
	"time"
)

// ChildEvent is a message a simsh child sent over the control socket ("EOF" when its
// connection closed, i.e. the process is gone).
type ChildEvent struct {
	Child *Child
	Msg   string
}

// Child is one simsh process as the simulator sees it.
type Child struct {
	Name string // script name, made unique with #n when the same script is started again
	Base string
	PID  int
	conn net.Conn
	// Msgs receives this child's messages in order.
	Msgs chan string
	Gone bool
}

// ChildServer owns the control socket every simsh child reports to. A child moves only
// when the simulator answers "go".
type ChildServer struct {
	Path string
	ln   net.Listener
	mu   sync.Mutex
	kids map[string]*Child
	seen map[string]int
	// Events receives every message of every child (including hello and EOF).
	Events chan ChildEvent
	Log    *Log
}

// NewChildServer listens on a fresh unix socket inside dir.
func NewChildServer(dir string) (*ChildServer, error) {
	path := filepath.Join(dir, fmt.Sprintf("ctl%d", os.Getpid()))
	_ = os.Remove(path)
	ln, err := net.Listen("unix", path)
	if err != nil {
		return nil, err
	}
	s := &ChildServer{Path: path, ln: ln, kids: map[string]*Child{}, seen: map[string]int{}, Events: make(chan ChildEvent, 1024)}
	go s.accept()
	return s, nil
}

func (s *ChildServer) accept() {
	for {
		c, err := s.ln.Accept()
		if err != nil {
			return
		}
		go s.serve(c)
	}
}

func (s *ChildServer) serve(c net.Conn) {
	rd := bufio.NewReader(c)
	var kid *Child
	for {
		line, err := rd.ReadString('\n')
		if err != nil {
			if kid != nil {
				s.mu.Lock()
				kid.Gone = true
				s.mu.Unlock()
				kid.Msgs <- "EOF"
				s.post(ChildEvent{kid, "EOF"})
			}
			c.Close()
			return
		}
		line = strings.TrimRight(line, "\n")
		if kid == nil {
			if !strings.HasPrefix(line, "hello ") {
				continue
			}
			f := strings.Fields(line)
			base := f[1]
			pid := 0
			if len(f) > 2 {
				pid, _ = strconv.Atoi(f[2])
			}
			s.mu.Lock()
			s.seen[base]++
			name := base
			if s.seen[base] > 1 {
				name = fmt.Sprintf("%s#%d", base, s.seen[base])
			}
			kid = &Child{Name: name, Base: base, PID: pid, conn: c, Msgs: make(chan string, 256)}
			s.kids[name] = kid
			s.mu.Unlock()
		}
		kid.Msgs <- line
		s.post(ChildEvent{kid, line})
	}
}

func (s *ChildServer) post(ev ChildEvent) {
	select {
	case s.Events <- ev:
	default: // nobody is draining the global stream; per-child Msgs still has it
	}
}

// Lookup returns the child with the given (unique) name, or nil.
func (s *ChildServer) Lookup(name string) *Child {
	s.mu.Lock()
	defer s.mu.Unlock()
	return s.kids[name]
}

// Children lists all children seen so far.
func (s *ChildServer) Children() []*Child {
	s.mu.Lock()
	defer s.mu.Unlock()
	var out []*Child
	for _, k := range s.kids {
		out = append(out, k)
	}
	return out
}

// Go lets a child take its next step.
func (c *Child) Go() {
	fmt.Fprintln(c.conn, "go")
}

// WaitMsg waits for a message with the given prefix from this child ("EOF" always ends
// the wait). ok is false on timeout.
func (c *Child) WaitMsg(prefix string, timeout time.Duration) (string, bool) {
	t := time.NewTimer(timeout)
	defer t.Stop()
	for {
		select {
		case m := <-c.Msgs:
			if strings.HasPrefix(m, prefix) || m == "EOF" {
				return m, true
			}
		case <-t.C:
			return "", false
		}
	}
}

// WaitChild waits until a child with the given base name has said hello.
func (s *ChildServer) WaitChild(name string, timeout time.Duration) *Child {
	deadline := time.Now().Add(timeout)
	for {
		if c := s.Lookup(name); c != nil {
			return c
		}
		if time.Now().After(deadline) {
			return nil
		}
		select {
		case <-s.Events:
		case <-time.After(20 * time.Millisecond):
		}
	}
}

// KillAll kills every child that is still alive and closes the socket.
func (s *ChildServer) KillAll() {
	s.mu.Lock()
	for _, k := range s.kids {
		if !k.Gone && k.PID > 0 {
			_ = syscall.Kill(k.PID, syscall.SIGKILL)
		}
	}
	s.mu.Unlock()
}

// Close stops the server.
func (s *ChildServer) Close() {
	s.KillAll()
	s.ln.Close()
	_ = os.Remove(s.Path)
}
