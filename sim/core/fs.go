package core

import (
	"fmt"
	"io/fs"
	"os"
	"path/filepath"
	"sort"
	"strings"
	"syscall"
)

// FSFault is what SimFS does instead of a normal open.
type FSFault string

const (
	FaultNone     FSFault = ""
	FaultENOENT   FSFault = "enoent"
	FaultEACCES   FSFault = "eacces"
	FaultDevFull  FSFault = "devfull"  // hand out /dev/full for a write open
	FaultReadOnly FSFault = "readonly" // hand out a read-only handle for a write open
	FaultEMFILE   FSFault = "emfile"   // "too many open files" for a write open
)

// FSEvent is one call that reached the OpenFile seam.
type FSEvent struct {
	Name  string
	Flag  int
	Write bool
	Err   string
}

// SimFS is the Config.OpenFile function of a simulated run: virtual names map to real
// files inside a per-run scratch directory; every call is logged; faults come from Plan.
type SimFS struct {
	Dir  string
	Plan map[string]FSFault
	// Once lists names whose fault fires only on the first matching open.
	Once   map[string]bool
	Events []FSEvent
	Log    *Log
	// LastOpened is the virtual name of the most recent successful read-only open (used
	// by the reader hook to know which file a new scanner belongs to).
	LastOpened string
	Fired      map[FSFault]int
}

// NewSimFS creates the scratch directory under base.
func NewSimFS(base string, log *Log) (*SimFS, error) {
	dir, err := os.MkdirTemp(base, "fs")
	if err != nil {
		return nil, err
	}
	return &SimFS{Dir: dir, Plan: map[string]FSFault{}, Once: map[string]bool{}, Log: log, Fired: map[FSFault]int{}}, nil
}

// Path returns the real path of a virtual name.
func (f *SimFS) Path(name string) string {
	return filepath.Join(f.Dir, "v_"+strings.NewReplacer("/", "%2F", "\x00", "%00").Replace(name))
}

// Put creates a virtual file with the given content.
func (f *SimFS) Put(name string, content []byte) error {
	return os.WriteFile(f.Path(name), content, 0644)
}

// Get reads a virtual file; ok is false if it does not exist.
func (f *SimFS) Get(name string) ([]byte, bool) {
	b, err := os.ReadFile(f.Path(name))
	if err != nil {
		return nil, false
	}
	return b, true
}

// Open is the OpenFile seam.
func (f *SimFS) Open(name string, flag int, perm os.FileMode) (*os.File, error) {
	write := flag&(os.O_WRONLY|os.O_RDWR|os.O_CREATE|os.O_TRUNC|os.O_APPEND) != 0
	ev := FSEvent{Name: name, Flag: flag, Write: write}
	var file *os.File
	var err error
	fault := f.Plan[name]
	if fault != FaultNone && f.Once[name] && (fault != FaultEMFILE || write) {
		delete(f.Plan, name)
	}
	switch {
	case fault == FaultENOENT:
		err = &fs.PathError{Op: "open", Path: name, Err: syscall.ENOENT}
	case fault == FaultEACCES:
		err = &fs.PathError{Op: "open", Path: name, Err: syscall.EACCES}
	case fault == FaultEMFILE && write:
		err = &fs.PathError{Op: "open", Path: name, Err: syscall.EMFILE}
	case fault == FaultDevFull && write:
		file, err = os.OpenFile("/dev/full", os.O_WRONLY, 0)
	case fault == FaultReadOnly && write:
		// the file exists but the handle cannot be written
		_ = os.WriteFile(f.Path(name), nil, 0644)
		file, err = os.OpenFile(f.Path(name), os.O_RDONLY, 0)
	default:
		fault = FaultNone
		file, err = os.OpenFile(f.Path(name), flag, perm)
		if err != nil {
			if pe, ok := err.(*fs.PathError); ok {
				err = &fs.PathError{Op: pe.Op, Path: name, Err: pe.Err}
			}
		}
	}
	if fault != FaultNone {
		f.Fired[fault]++
	}
	if err != nil {
		ev.Err = err.Error()
	} else if !write {
		f.LastOpened = name
	}
	f.Events = append(f.Events, ev)
	f.Log.Addf("open %q flag=%#x err=%v", name, flag, err != nil)
	return file, err
}

// Snapshot lists the virtual files with their contents.
func (f *SimFS) Snapshot() map[string]string {
	out := map[string]string{}
	ents, _ := os.ReadDir(f.Dir)
	for _, e := range ents {
		b, err := os.ReadFile(filepath.Join(f.Dir, e.Name()))
		if err != nil {
			continue
		}
		name := e.Name()
		if strings.HasPrefix(name, "v_") {
			name = strings.NewReplacer("%2F", "/", "%00", "\x00").Replace(name[2:])
		} else {
			name = "!stray:" + name
		}
		out[name] = string(b)
	}
	return out
}

// SnapshotString renders a snapshot deterministically.
func SnapshotString(m map[string]string) string {
	keys := make([]string, 0, len(m))
	for k := range m {
		keys = append(keys, k)
	}
	sort.Strings(keys)
	var sb strings.Builder
	for _, k := range keys {
		fmt.Fprintf(&sb, "%q=%q;", k, m[k])
	}
	return sb.String()
}

// Remove deletes the scratch directory.
func (f *SimFS) Remove() { _ = os.RemoveAll(f.Dir) }
