//go:build !race

package core

// RaceEnabled reports whether the harness was built with the race detector.
const RaceEnabled = false
