package core

import (
	"encoding/json"
	"os"
	"sort"
)

// Failure is a failed oracle of one simulated run.
type Failure struct {
	Oracle string `json:"oracle"`
	Detail string `json:"detail"`
	// Known is the id of the open known finding whose classifier explains the failure.
	Known string `json:"known,omitempty"`
}

// Outcome is what running one scenario produced.
type Outcome struct {
	Fail *Failure
	// Reduced, if non-nil, is a more specific scenario that fails the same way (used when a
	// scenario stands for an enumerated family, e.g. every chunking of an input).
	Reduced any
	// Evals is the number of executions of the system under test inside this scenario.
	Evals int
	// Hashes are the event-log hashes of the executions; Nontrivial tells for each whether
	// it exercised the property's mechanism by the engine's stated rule.
	Hashes     []uint64
	Nontrivial []bool
	Probes     map[string]int
	SimTime    int64
	Log        []string
}

// One adds a single execution to the outcome.
func (o *Outcome) One(hash uint64, nontrivial bool) {
	o.Evals++
	o.Hashes = append(o.Hashes, hash)
	o.Nontrivial = append(o.Nontrivial, nontrivial)
}

// Probe increments a reach/fault counter.
func (o *Outcome) Probe(name string, n int) {
	if n == 0 {
		return
	}
	if o.Probes == nil {
		o.Probes = map[string]int{}
	}
	o.Probes[name] += n
}

// Engine is the simulation engine of one property.
type Engine interface {
	ID() string
	// Level is the evidence level ("exploration" or "fault_enumeration").
	Level(tier string) string
	// Rule describes generation and what makes a case non-trivial/distinct.
	Rule() string
	Assumptions() []string
	// Components says which parts ran real code and which a stub.
	Components() map[string]string
	// Count is the number of scenario indices of the tier; BudgetS the wall-clock cap.
	Count(tier string) int
	BudgetS(tier string) int
	// Workers is the number of worker processes wanted (0 = number of CPUs).
	Workers(tier string) int
	// Gen draws scenario i; everything random comes from r.
	Gen(r *Rand, tier string, i int) any
	// NewScenario returns an empty scenario to decode a replay file into.
	NewScenario() any
	// Run executes a scenario; it consults no PRNG and no clock.
	Run(sc any, keepLog bool) Outcome
	// Shrink proposes simpler scenarios, most aggressive first.
	Shrink(sc any) []any
}

// Finding is an entry of known_findings.json.
type Finding struct {
	ID       string `json:"id"`
	Property string `json:"property"`
	Status   string `json:"status"` // "open" or "fixed"
	What     string `json:"what"`
	// Line is the record required by the interface for fixed entries:
	// "fixed: property=<id> <commit> <what failed>".
	Line       string `json:"line,omitempty"`
	Commit     string `json:"commit,omitempty"`
	Classifier string `json:"classifier,omitempty"`
	Witness    string `json:"witness,omitempty"`
}

type findingsFile struct {
	Findings []Finding `json:"findings"`
}

var findings []Finding

// LoadFindings reads known_findings.json (a missing file means no findings).
func LoadFindings(path string) error {
	findings = nil
	b, err := os.ReadFile(path)
	if err != nil {
		if os.IsNotExist(err) {
			return nil
		}
		return err
	}
	var ff findingsFile
	if err := json.Unmarshal(b, &ff); err != nil {
		return err
	}
	findings = ff.Findings
	return nil
}

// IsOpen reports whether the finding is listed as open; classifiers apply only then.
func IsOpen(id string) bool {
	for _, f := range findings {
		if f.ID == id && f.Status == "open" {
			return true
		}
	}
	return false
}

// OpenFindings lists the open findings of a property.
func OpenFindings(property string) []Finding {
	var out []Finding
	for _, f := range findings {
		if f.Property == property && f.Status == "open" {
			out = append(out, f)
		}
	}
	sort.Slice(out, func(i, j int) bool { return out[i].ID < out[j].ID })
	return out
}

var engines = map[string]Engine{}

// Register adds an engine to the registry.
func Register(e Engine) { engines[e.ID()] = e }

// Lookup finds an engine by property id.
func Lookup(id string) Engine { return engines[id] }

// EngineIDs lists the registered engines.
func EngineIDs() []string {
	var ids []string
	for id := range engines {
		ids = append(ids, id)
	}
	sort.Strings(ids)
	return ids
}
