// simcheck: deterministic-simulation checks for goawk. See /verif/DESIGN.md.
package main

import (
	"encoding/json"
	"flag"
	"fmt"
	"os"
	"path/filepath"
	"strconv"

	"github.com/benhoyt/goawk/verifharness/core"
	_ "github.com/benhoyt/goawk/verifharness/eng"
)

func usage() {
	fmt.Fprintln(os.Stderr, `usage:
  simcheck run <ID> [--tier quick|thorough] [--seed N] [--workers N] [--count N] [--budget S] [--verif DIR]
  simcheck replay [--verif DIR] [-v] <file>
  simcheck gen <ID> [--tier T] [--seed N] --index I
  simcheck hashes <ID> [--tier T] [--seed N] [--count N]     (determinism self-test: prints index hash)
  engines:`, core.EngineIDs())
	os.Exit(2)
}

func envSeed() uint64 {
	if s := os.Getenv("VERIF_SEED"); s != "" {
		if n, err := strconv.ParseUint(s, 10, 64); err == nil {
			return n
		}
		if n, err := strconv.ParseInt(s, 10, 64); err == nil {
			return uint64(n)
		}
	}
	return 1
}

func main() {
	if len(os.Args) < 2 {
		usage()
	}
	cmd := os.Args[1]
	fs := flag.NewFlagSet(cmd, flag.ExitOnError)
	tier := fs.String("tier", "quick", "")
	seed := fs.Uint64("seed", envSeed(), "")
	workers := fs.Int("workers", 0, "")
	count := fs.Int("count", 0, "")
	budget := fs.Int("budget", 0, "")
	verif := fs.String("verif", "/verif", "")
	id := fs.String("id", "", "")
	widx := fs.Int("widx", 0, "")
	nw := fs.Int("nw", 1, "")
	result := fs.String("result", "", "")
	index := fs.Int("index", 0, "")
	lo := fs.Int("lo", 0, "")
	hi := fs.Int("hi", 0, "")
	verbose := fs.Bool("v", false, "")
	args := os.Args[2:]
	var pos []string
	// allow the positional argument before or after flags
	for len(args) > 0 && len(args[0]) > 0 && args[0][0] != '-' {
		pos = append(pos, args[0])
		args = args[1:]
	}
	fs.Parse(args)
	pos = append(pos, fs.Args()...)
	if t := os.Getenv("VERIF_TIER"); t != "" && cmd == "run" {
		// the tier given on the command line wins; VERIF_TIER is only a default
		set := false
		fs.Visit(func(f *flag.Flag) { set = set || f.Name == "tier" })
		if !set {
			*tier = t
		}
	}
	if b := os.Getenv("VERIF_BUDGET_S"); b != "" && *budget == 0 {
		*budget, _ = strconv.Atoi(b)
	}
	if err := core.LoadFindings(filepath.Join(*verif, "known_findings.json")); err != nil {
		core.Fatal("known_findings.json: %v", err)
	}
	self, err := os.Executable()
	if err != nil {
		core.Fatal("executable: %v", err)
	}
	switch cmd {
	case "run":
		if len(pos) != 1 {
			usage()
		}
		os.Exit(core.RunBatch(core.Opts{ID: pos[0], Tier: *tier, Seed: *seed, VerifDir: *verif, Workers: *workers,
			BudgetS: *budget, Count: *count, Self: self}))
	case "worker":
		core.RunWorker(core.Opts{ID: *id, Tier: *tier, Seed: *seed, VerifDir: *verif, BudgetS: *budget, Count: *count, Self: self}, *widx, *nw, *result)
	case "replay":
		if len(pos) != 1 {
			usage()
		}
		if rf, _, _ := core.LoadReplay(pos[0]); rf.Tier == "race" {
			os.Exit(core.RaceReplay(pos[0], self, *verif))
		}
		os.Exit(core.ReplayMain(pos[0], *verbose))
	case "race":
		if len(pos) != 1 {
			usage()
		}
		n := *count
		if n == 0 {
			n = 40
		}
		os.Exit(core.RaceMain(pos[0], *seed, n, *workers, *verif, self))
	case "race-worker":
		os.Exit(core.RaceWorker(*id, *seed, *lo, *hi, *result))
	case "race-one":
		_, e, sc := core.LoadReplay(pos[0])
		out := core.SafeRun(e, sc, false)
		if out.Fail != nil {
			fmt.Printf("RACE-LAYER-FAIL oracle=%s detail=%s\n", out.Fail.Oracle, out.Fail.Detail)
			os.Exit(1)
		}
	case "gen":
		e := core.Lookup(pos[0])
		if e == nil {
			usage()
		}
		sc := e.Gen(core.NewRand(core.Mix(*seed, core.HashString(e.ID()), uint64(*index))), *tier, *index)
		b, _ := json.MarshalIndent(sc, "", " ")
		fmt.Println(string(b))
	case "hashes":
		e := core.Lookup(pos[0])
		if e == nil {
			usage()
		}
		n := *count
		if n == 0 {
			n = 64
		}
		for i := 0; i < n; i++ {
			sc := e.Gen(core.NewRand(core.Mix(*seed, core.HashString(e.ID()), uint64(i))), *tier, i)
			out := core.SafeRun(e, sc, *verbose)
			for _, l := range out.Log {
				fmt.Printf("   %d: %s\n", i, l)
			}
			h := uint64(0)
			for _, x := range out.Hashes {
				h = core.Mix(h, x)
			}
			f := "ok"
			if out.Fail != nil {
				f = "fail:" + out.Fail.Oracle + ":" + out.Fail.Known
			}
			fmt.Printf("%d %016x %d %s\n", i, h, out.Evals, f)
		}
	default:
		usage()
	}
}
