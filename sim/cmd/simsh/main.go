// simsh is the stub child process of the simulator: `simsh <ctl-socket|-> <script>`.
// The AWK command string is its script: a ';'-separated list whose first element is the
// child's name, followed by steps
//
//	emit:<text>   write text to stdout
//	err:<text>    write text to stderr
//	slurp         read stdin to EOF and report the bytes
//	line          read one line of stdin and report it
//	save:<path>   read stdin to EOF, write it to a file and report the bytes
//	cat:<path>    copy a file to stdout
//	exit:<n>      exit with status n
//	kill:<sig>    kill itself with a signal number
//	hang          block until killed (at most 90 s)
//	spawn:<name>  start a detached grandchild "<name>;hang" that inherits stdout
//	mark:<path>   create a file (proof that the child ran)
//	append:<path>:<text>  open a file with O_APPEND and write text to it
//
// With a control socket every step is a handshake with the simulator ("at i step" -> "go",
// then an acknowledgement), so the simulator decides when the child moves. With "-" the
// child runs freely.
package main

import (
	"bufio"
	"fmt"
	"io"
	"net"
	"os"
	"os/exec"
	"strconv"
	"strings"
	"syscall"
	"time"
)

func main() {
	if len(os.Args) < 3 {
		fmt.Fprintln(os.Stderr, "usage: simsh <ctl-socket|-> <script>")
		os.Exit(98)
	}
	sock, script := os.Args[1], os.Args[2]
	if p := os.Getenv("SIMSH_STARTLOG"); p != "" {
		// proof that a process was started, independent of the control socket
		if f, err := os.OpenFile(p, os.O_APPEND|os.O_CREATE|os.O_WRONLY, 0644); err == nil {
			fmt.Fprintf(f, "%s\n", strings.ReplaceAll(script, "\n", "\\n"))
			f.Close()
		}
	}
	var conn net.Conn
	var rd *bufio.Reader
	if sock != "-" {
		var err error
		conn, err = net.Dial("unix", sock)
		if err != nil {
			fmt.Fprintln(os.Stderr, "simsh: dial:", err)
			os.Exit(99)
		}
		rd = bufio.NewReader(conn)
	}
	send := func(s string) {
		if conn != nil {
			fmt.Fprintf(conn, "%s\n", s)
		}
	}
	wait := func() {
		if conn != nil {
			if _, err := rd.ReadString('\n'); err != nil {
				os.Exit(97) // simulator went away
			}
		}
	}
	steps := strings.Split(script, ";")
	name := steps[0]
	send("hello " + name + " " + strconv.Itoa(os.Getpid()))
	wait()
	stdin := bufio.NewReader(os.Stdin)
	for i, st := range steps[1:] {
		send(fmt.Sprintf("at %d %s", i, st))
		wait()
		op, arg, _ := strings.Cut(st, ":")
		switch op {
		case "emit":
			_, err := os.Stdout.WriteString(arg)
			send(fmt.Sprintf("done emit %v", err == nil))
		case "err":
			os.Stderr.WriteString(arg)
			send("done err")
		case "slurp":
			b, _ := io.ReadAll(stdin)
			send("got " + strconv.Quote(string(b)))
		case "line1":
			// read exactly one line from the real descriptor, byte by byte (no read-ahead), so that
			// whoever shares the descriptor continues right after it
			var b []byte
			one := make([]byte, 1)
			for {
				n, err := os.Stdin.Read(one)
				if n == 1 {
					b = append(b, one[0])
					if one[0] == '\n' {
						break
					}
				}
				if err != nil {
					break
				}
			}
			os.Stdout.WriteString("sh:" + string(b))
			send("got " + strconv.Quote(string(b)))
		case "line":
			b, _ := stdin.ReadString('\n')
			send("got " + strconv.Quote(b))
		case "save":
			b, _ := io.ReadAll(stdin)
			os.WriteFile(arg, b, 0644)
			send("got " + strconv.Quote(string(b)))
		case "cat":
			b, err := os.ReadFile(arg)
			if err == nil {
				os.Stdout.Write(b)
			}
			send("done cat")
		case "append":
			// append:<path>:<text> - another writer appending to a file the program has open
			path, text, _ := strings.Cut(arg, ":")
			f, err := os.OpenFile(path, os.O_APPEND|os.O_CREATE|os.O_WRONLY, 0644)
			if err == nil {
				f.WriteString(text)
				f.Close()
			}
			send(fmt.Sprintf("done append %v", err == nil))
		case "mark":
			os.WriteFile(arg, []byte(name), 0644)
			send("done mark")
		case "exit":
			n, _ := strconv.Atoi(arg)
			send("exiting " + arg)
			os.Exit(n)
		case "kill":
			n, _ := strconv.Atoi(arg)
			send("exiting sig" + arg)
			syscall.Kill(os.Getpid(), syscall.Signal(n))
			select {}
		case "spawn":
			// start a detached grandchild that inherits stdout/stderr and hangs
			gc := exec.Command(os.Args[0], sock, arg+";hang")
			gc.Stdout, gc.Stderr = os.Stdout, os.Stderr
			err := gc.Start()
			send(fmt.Sprintf("done spawn %v", err == nil))
		case "hang":
			send("hanging")
			time.Sleep(90 * time.Second) // orphans must not accumulate
			os.Exit(96)
		default:
			send("done unknown")
		}
	}
	send("exiting 0")
}
