package eng

import (
	"bytes"
	"fmt"
	"io"
	"os"
	"reflect"
	"regexp"
	"runtime"
	"sort"
	"strconv"
	"strings"
	"sync"
	"sync/atomic"

	"github.com/benhoyt/goawk/internal/verifsim"
	"github.com/benhoyt/goawk/interp"
	"github.com/benhoyt/goawk/parser"
	"github.com/benhoyt/goawk/verifharness/core"
)

// ---------------------------------------------------------------------------------------
// C19 — parsing is deterministic; a parsed Program is immutable and shareable.
// ---------------------------------------------------------------------------------------

type c19Scn struct {
	// Kind: "parse" (same source under several map iteration orders) or "exec" (several
	// interpreters sharing one Program under the seeded scheduler)
	Kind   string `json:"kind"`
	Src    string `json:"src"`
	Native bool   `json:"native,omitempty"`
	// Orders are map-order seeds: 0 sorted, 1 reversed, otherwise a seeded permutation per
	// iteration.
	Orders []uint64 `json:"orders,omitempty"`
	// Before (parse kind): sources parsed, in order, before Src in the same process; the result for
	// Src must not depend on them
	Before []string `json:"before,omitempty"`
	// Rounds (exec kind) > 1: every Interpreter is reused for that many executions
	Rounds int `json:"rounds,omitempty"`
	// exec
	Inputs  []core.Bytes `json:"inputs,omitempty"`  // one stdin per interpreter
	Quanta  []int        `json:"quanta,omitempty"`  // scheduler tape: steps per turn
	Choices []int        `json:"choices,omitempty"` // scheduler tape: who runs next
	// Threads > 0: race layer (real goroutines, harness built with -race)
	Threads int `json:"threads,omitempty"`
	Reps    int `json:"reps,omitempty"`
}

var c19funcs = map[string]any{
	"nat":  func(x float64) float64 { return x + 1 },
	"nats": func(s string) string { return "<" + s + ">" },
	"nat2": func(a, b int) int { return a*10 + b },
	"natb": c19Natb,
}

// c19Natb upper-cases its argument in place: a native function owns the []byte it is given.
func c19Natb(b []byte) string {
	for i := range b {
		if 'a' <= b[i] && b[i] <= 'z' {
			b[i] -= 32
		}
	}
	return string(b)
}

// programs for executions with native functions / with the process environment (Config.Environ nil)
var c19NativeExecPrograms = []string{
	`BEGIN { g = "hello there"; print natb(g), g, natb("constant text"), nats("k") }
{ w = $1; print natb(w), w, $1, natb("per record " NR), nat(NR) }
END { print natb("the end"), g }`,
}
var c19EnvExecProgram = `BEGIN { before = ENVIRON["C19X"]; print "before=" before; ENVIRON["C19X"] = "set" }
{ ENVIRON["C19X"] = ENVIRON["C19X"] "," $1; print NR, ENVIRON["C19X"] }
END { n = 0; for (k in ENVIRON) n++; print (n > 0), ENVIRON["C19X"], ("C19Y" in ENVIRON); ENVIRON["C19Y"] = NR }`

type c19Engine struct{}

func init() { core.Register(c19Engine{}) }

func (c19Engine) ID() string               { return "C19" }
func (c19Engine) Level(tier string) string { return "exploration" }
func (c19Engine) Rule() string {
	return "parse scenarios: a generated resolver-stress source (2-8 functions: chains, diamonds, self/mutual recursion, unused and forwarded parameters, locals as arrays, native functions, globals typed only through calls, 0-4 injected independent type errors) or a repository test program is parsed under sorted, reversed and seeded-random iteration orders of every Go map in resolver/compiler (maporder rewrite); verdict, error text and position, Program.String and the disassembly must be identical. exec scenarios: 2-6 Interpreters created from one Program run as actors that yield at every VM step (hook H1); a seeded scheduler tape decides who runs for how many steps; each execution must equal the sequential result and a deep structural hash of the Program must never change (checked at every switch). One evaluation = one parse under one order, or one scheduled concurrent run. Distinct = distinct event-log hash; non-trivial = the orders actually permuted a map with >= 2 keys (parse) or >= 2 interpreters were interleaved with >= 2 switches (exec)."
}
func (c19Engine) Assumptions() []string {
	return []string{
		"the maporder rewrite preserves Go semantics (validated by running the repository's unedited test suite on the rewritten copy in the thorough tier)",
		"interleaving is at VM-instruction granularity; races inside one instruction are the business of the secondary -race layer (real goroutines, not seed-replayable)",
	}
}
func (c19Engine) Components() map[string]string {
	return map[string]string{
		"lexer, parser, resolver, compiler, VM":    "real (map iteration order controlled through the maporder scratch rewrite)",
		"goroutine scheduling of the interpreters": "simulated (actors parked at hook H1, released one at a time from the scenario's tape)",
		"stdin/stdout": "stub (SimReader/SimSink)",
	}
}
func (c19Engine) Count(tier string) int {
	if tier == "thorough" {
		return 300000
	}
	return 10000
}
func (c19Engine) BudgetS(tier string) int {
	if tier == "thorough" {
		return 900
	}
	return 50
}
func (c19Engine) Workers(tier string) int { return 0 }
func (c19Engine) NewScenario() any        { return &c19Scn{} }

// ---- generation of resolver-stress sources ----

type c19Fn struct {
	name   string
	params []string
	ptypes []byte // 'a' array, 's' scalar, 'u' unused/forward-only
	nreal  int    // number of real parameters (the rest are locals)
}

func c19GenSource(r *core.Rand, nerr int, native bool) string {
	nf := r.Range(2, 8)
	if r.Chance(1, 25) {
		nf = r.Range(24, 40) // large programs (thresholds in the compiler/resolver)
	}
	fns := make([]c19Fn, nf)
	for i := range fns {
		f := &fns[i]
		f.name = fmt.Sprintf("f%d", i)
		np := r.Range(0, 3)
		f.nreal = np
		nl := r.Range(0, 2)
		for k := 0; k < np+nl; k++ {
			f.params = append(f.params, fmt.Sprintf("%c%d", "pqrstu"[k%6], i))
			f.ptypes = append(f.ptypes, core.Pick(r, []byte{'a', 's', 's', 'u'}))
		}
	}
	gtypes := []byte{'a', 's', 'a', 's'}
	gname := func(k int) string { return fmt.Sprintf("G%d", k) }
	// an expression of the wanted type available in function fi (-1 = top level)
	argOf := func(fi int, want byte) string {
		var cands []string
		if fi >= 0 {
			for k, t := range fns[fi].ptypes {
				if t == want || (t == 'u' && r.Chance(1, 3)) {
					cands = append(cands, fns[fi].params[k])
				}
			}
		}
		for k, t := range gtypes {
			if t == want {
				cands = append(cands, gname(k))
			}
		}
		if want == 's' || want == 'u' {
			cands = append(cands, "1", `"s"`, "NR")
		}
		if len(cands) == 0 {
			return "G0"
		}
		return core.Pick(r, cands)
	}
	call := func(from int, to int) string {
		f := fns[to]
		var args []string
		n := f.nreal
		if n > 0 && r.Chance(1, 5) {
			n-- // fewer arguments than parameters
		}
		for k := 0; k < n; k++ {
			args = append(args, argOf(from, f.ptypes[k]))
		}
		return fmt.Sprintf("%s(%s)", f.name, strings.Join(args, ", "))
	}
	errStmt := func(fi int) string {
		switch r.Intn(9) {
		case 7, 8:
			// a parenthesised comma list that is not followed by "in": reported per occurrence,
			// with positions that differ in line and column
			return strings.Repeat(" ", r.Intn(12)) + core.Pick(r, []string{"zq = (1, 2)", "(G1, 3)", "print (1, 2) (3, 4) > (5, 6)"})
		case 0:
			return "undefinedfn(1)"
		case 1:
			to := r.Intn(nf)
			return fmt.Sprintf("%s(1, 2, 3, 4, 5, 6, 7)", fns[to].name)
		case 2:
			for k, t := range gtypes {
				if t == 'a' {
					return fmt.Sprintf("zz = %s + 1", gname(k))
				}
			}
		case 3:
			for k, t := range gtypes {
				if t == 's' && r.Bool() {
					return fmt.Sprintf("%s[1] = 2", gname(k))
				}
			}
			return "G1[1] = 2"
		case 4:
			if fi >= 0 && len(fns[fi].params) > 0 {
				return fmt.Sprintf("%s()", fns[fi].params[0])
			}
			return "G0 = 5"
		case 5:
			if fi >= 0 {
				for k, t := range fns[fi].ptypes {
					if t == 'a' {
						return fmt.Sprintf("yy = %s \"\"", fns[fi].params[k])
					}
					if t == 's' {
						return fmt.Sprintf("%s[\"k\"] = 1", fns[fi].params[k])
					}
				}
			}
			return "G3[0] = 1"
		}
		return "G2 = G2 + 1"
	}
	errAt := map[int]int{} // function index (-1 = BEGIN) -> number of errors
	for k := 0; k < nerr; k++ {
		errAt[r.Range(-1, nf-1)]++
	}
	var items []string
	for i, f := range fns {
		var body []string
		for k, t := range f.ptypes {
			p := f.params[k]
			switch t {
			case 'a':
				body = append(body, core.Pick(r, []string{p + "[1] = 1", "for (k in " + p + ") n++", "delete " + p + "[2]", `split("x y", ` + p + ")", p + `["a", "b"] = length(` + p + ")", "if (3 in " + p + ") n--"}))
			case 's':
				stmts := []string{"n = " + p + " + 1", p + " = 2", "n = length(" + p + ")", `printf "%s;", ` + p}
				if native {
					stmts = append(stmts, "n = nat("+p+")", "n = nat2("+p+", 3)")
				}
				body = append(body, core.Pick(r, stmts))
			}
		}
		ncalls := r.Range(0, 2)
		for k := 0; k < ncalls; k++ {
			to := r.Intn(nf)
			if r.Chance(1, 4) {
				to = i // self recursion
			}
			body = append(body, "if (depth++ < 3) "+call(i, to))
		}
		for k := 0; k < errAt[i]; k++ {
			body = append(body, errStmt(i))
		}
		body = append(body, fmt.Sprintf(`print "%s", n, %d.5, /re%d/`, f.name, i, i))
		if r.Chance(1, 3) {
			body = append(body, "return n")
		}
		// shuffle the body
		for k := len(body) - 1; k > 0; k-- {
			j := r.Intn(k + 1)
			body[k], body[j] = body[j], body[k]
		}
		items = append(items, fmt.Sprintf("function %s(%s) { %s }", f.name, strings.Join(f.params, ", "), strings.Join(body, "; ")))
	}
	var begin []string
	begin = append(begin, `G0["x"] = 1`, "G1 = 2")
	for i := 0; i < nf; i++ {
		if r.Chance(2, 3) {
			begin = append(begin, call(-1, i))
		}
	}
	for k := 0; k < errAt[-1]; k++ {
		begin = append(begin, errStmt(-1))
	}
	begin = append(begin, `print "done", G1, length(G0)`)
	items = append(items, "BEGIN { "+strings.Join(begin, "; ")+" }")
	if r.Chance(1, 3) {
		items = append(items, `$1 ~ /a+/ { G2[$1]++; print nats0($0) } function nats0(s) { return "[" s "]" }`)
	}
	for k := len(items) - 1; k > 0; k-- {
		j := r.Intn(k + 1)
		items[k], items[j] = items[j], items[k]
	}
	return strings.Join(items, "\n")
}

// c19ExecPrograms are hand-written programs for the concurrent-execution scenarios.
var c19ExecPrograms = []string{
	`function fib(n) { return n < 2 ? n : fib(n-1) + fib(n-2) }
BEGIN { for (i = 0; i < 12; i++) printf "%d ", fib(i); print "" }
{ n = split($0, parts, /[ ,]+/); for (i = 1; i <= n; i++) cnt[parts[i]]++; s = $0; gsub(/[aeiou]/, "#", s); print NR, s, sprintf("%5.2f|%-4s|%c", NR / 3, $1, 65 + NR) }
/start/, /stop/ { inrange++ }
END { for (k in cnt) total += cnt[k]; print "total", total, inrange; print toupper(substr("concurrent", 2, 5)), index("shared", "are"), match("xxabc", /b+c/), RSTART, RLENGTH }`,
	`function fill(a, n,   i) { for (i = 0; i < n; i++) a[i] = i * i; return n }
function sum(a,   k, s) { for (k in a) s += a[k]; return s }
BEGIN { OFS = "-"; n = fill(sq, 20); print n, sum(sq); re = "^[a-c]+$" }
$0 ~ re { m++ }
{ $2 = $2 "!"; print; if (sub(/x+/, "[&]")) print "sub:" $0; r = r $1 }
END { print m + 0, length(r); printf "%s %d %5.1f %x\n", "fmt", 42, 3.14159, 255 }`,
	`BEGIN { CONVFMT = "%.3g"; x = 3.14159265; s = x ""; print s; while (("x" i++) < "x5") t = t i; print t }
{ a[NR % 3] = a[NR % 3] $0; if (NR % 2) next; print "even", NR, $NF }
END { n = asorted(a); print n } function asorted(arr,   k, c) { for (k in arr) c++; return c }`,
	// deep recursion (the VM's value stack and frame storage grow far beyond their initial size)
	// and the random number generator without srand (every execution draws the same sequence)
	`function depth(n,   a, b, c) { a = n; b = n * 2; c = a + b; return n > 0 ? depth(n - 1) + c % 7 : 0 }
BEGIN { print depth(300); r0 = rand(); print (r0 < 1), int(rand() * 1000) }
{ s += depth(NR * 40 % 250); x = x (rand() < 0.5 ? "h" : "t") }
END { print s, x; for (i = 0; i < 5; i++) printf "%d ", int(rand() * 100); print "" }`,
}

// c19BrokenSources are sources that fail early, while the parser holds pending state.
var c19BrokenSources = []string{
	"BEGIN { print (1, 2) * }",
	"BEGIN { x = (1, 2",
	"function f(a, a) { }",
	"BEGIN { (a, b) ; print > }",
	"{ print (1, 2) (3, 4) > \"x\" ; getline < }",
	"function g( { }\nBEGIN { g(1, 2) }",
	"BEGIN { f(x) } function f(a) { a[1] } BEGIN { x = 1 }",
	"BEGIN { \"unterminated }",
}

// c19SaltedRegexProgram uses dynamic regexes whose text (SALT) is new to the process.
const c19SaltedRegexProgram = `BEGIN { re = "^(a|ab|SALT)+$"; alt = "b|bSALT|bc" }
{ if ($0 ~ re) m++; if (match($0, alt)) { n += RLENGTH; s = s RSTART }; gsub("[aeiou]|SALT", "#"); out = out $0 }
END { print m + 0, n + 0, s, length(out); print match("abSALT", "a|abSALT"), RLENGTH, match("bc", alt), RLENGTH }`

// c19ShellProgram shells out through the default shell command (race layer and scheduler).
const c19ShellProgram = `BEGIN { n = 3 }
{ cmd = "echo got-" $1 "-" NR; cmd | getline line; close(cmd); print line; if (NR <= n) { r = system("exit " NR); print "sys", r } }
END { "echo end-" NR | getline e; print e }`

func c19TestdataPrograms() []string {
	// a few self-contained programs of the repository's testdata
	var out []string
	dir := os.Getenv("VERIF_REPO_COPY")
	if dir == "" {
		return nil
	}
	ents, _ := os.ReadDir(dir + "/testdata")
	for _, e := range ents {
		name := e.Name()
		if !strings.HasPrefix(name, "t.") && !strings.HasPrefix(name, "p.") {
			continue
		}
		b, err := os.ReadFile(dir + "/testdata/" + name)
		if err != nil || len(b) > 1500 {
			continue
		}
		s := string(b)
		if strings.Contains(s, "system") || strings.Contains(s, "getline") || strings.Contains(s, "|") || strings.Contains(s, ">") || strings.Contains(s, "srand") || strings.Contains(s, "ENVIRON") {
			continue
		}
		out = append(out, s)
	}
	sort.Strings(out)
	return out
}

var (
	c19tdOnce sync.Once
	c19td     []string
)

func (c19Engine) Gen(r *core.Rand, tier string, i int) any {
	c19tdOnce.Do(func() { c19td = c19TestdataPrograms() })
	sc := &c19Scn{}
	if r.Chance(3, 5) {
		sc.Kind = "parse"
		sc.Native = r.Chance(1, 3)
		nerr := 0
		if r.Chance(1, 2) {
			nerr = r.Range(1, 4)
		}
		if len(c19td) > 0 && r.Chance(1, 8) {
			sc.Src = core.Pick(r, c19td)
		} else if r.Chance(1, 10) {
			// an error found by the lexer or the regex compiler, at a drawn line and column
			bad := core.Pick(r, []string{"x = /[/", "if ($0 ~ /(/) print", "s = \"unterminated", "x = 1 +* 2", "y = /a{2,1}/", "print > ", "x = @"})
			sc.Src = strings.Repeat("\n", r.Intn(4)) + "BEGIN { ok = 1 }\n" + strings.Repeat(" ", r.Intn(6)) + "BEGIN { " + strings.Repeat("a = 1; ", r.Intn(3)) + bad + " }\n"
		} else {
			sc.Src = c19GenSource(r, nerr, sc.Native)
		}
		if r.Chance(1, 5) {
			for k := r.Range(1, 3); k > 0; k-- {
				if r.Chance(2, 3) {
					sc.Before = append(sc.Before, core.Pick(r, c19BrokenSources))
				} else {
					sc.Before = append(sc.Before, c19GenSource(r, r.Range(1, 3), sc.Native))
				}
			}
		}
		sc.Orders = []uint64{0, 1}
		n := 6
		if tier == "thorough" {
			n = 14
		}
		for k := 0; k < n; k++ {
			sc.Orders = append(sc.Orders, r.Uint64()|2)
		}
		return sc
	}
	sc.Kind = "exec"
	switch r.Intn(4) {
	case 0:
		sc.Src = c19GenSource(r, 0, true)
		sc.Native = true
		if r.Chance(1, 3) {
			sc.Src = core.Pick(r, c19NativeExecPrograms)
		}
	case 1:
		if len(c19td) > 0 {
			sc.Src = core.Pick(r, c19td)
			break
		}
		fallthrough
	default:
		sc.Src = core.Pick(r, c19ExecPrograms)
		if r.Chance(1, 6) {
			sc.Src = c19EnvExecProgram
		}
	}
	if r.Chance(1, 3) {
		sc.Rounds = r.Range(2, 3)
	}
	n := r.Range(2, 6)
	lines := []string{"abc start\n", "b,c d\n", "xx stop\n", "caab 7\n", "hello world\n", "aaa\n", "\n", "1 2 3\n"}
	for k := 0; k < n; k++ {
		var in []byte
		for m := r.Range(0, 8); m > 0; m-- {
			in = append(in, core.Pick(r, lines)...)
		}
		sc.Inputs = append(sc.Inputs, in)
	}
	for k := r.Range(10, 120); k > 0; k-- {
		q := r.Range(1, 20)
		if r.Chance(1, 4) {
			q = r.Range(20, 500)
		}
		sc.Quanta = append(sc.Quanta, q)
		sc.Choices = append(sc.Choices, r.Intn(64))
	}
	return sc
}

// ---- map order control ----

type c19Order struct {
	seed     uint64
	calls    uint64
	permuted int // iterations over >= 2 keys that were actually reordered
}

func (o *c19Order) install() {
	if o.seed == 0 {
		verifsim.Perm = func(site string, n int) []int { return nil }
		return
	}
	verifsim.Perm = func(site string, n int) []int {
		o.calls++
		o.permuted++
		p := make([]int, n)
		if o.seed == 1 {
			for i := range p {
				p[i] = n - 1 - i
			}
			return p
		}
		return core.NewRand(core.Mix(o.seed, core.HashString(site), o.calls)).Perm(n)
	}
}

func c19Uninstall() { verifsim.Perm = nil }

type c19Parse struct {
	OK      bool
	Err     string
	Str     string
	Disasm  string
	Panic   string
	Program *parser.Program
}

func c19ParseOnce(src string, native bool, order uint64) (res c19Parse, permuted int) {
	o := &c19Order{seed: order}
	o.install()
	defer c19Uninstall()
	defer func() {
		if r := recover(); r != nil {
			res.Panic = fmt.Sprint(r)
		}
		permuted = o.permuted
	}()
	var cfg *parser.ParserConfig
	if native {
		cfg = &parser.ParserConfig{Funcs: c19funcs}
	}
	// the source is handed over as a sub-slice of a larger srcBuffer: parsing must not write to it
	srcBuf := make([]byte, len(src)+16)
	for i := range srcBuf {
		srcBuf[i] = 0xAA
	}
	copy(srcBuf, src)
	prog, err := parser.ParseProgram(srcBuf[:len(src)], cfg)
	for i := range srcBuf {
		want := byte(0xAA)
		if i < len(src) {
			want = src[i]
		}
		if srcBuf[i] != want {
			res.Panic = fmt.Sprintf("ParseProgram modified the caller's srcBuffer at offset %d (source length %d): %#x -> %#x", i, len(src), want, srcBuf[i])
			return
		}
	}
	if err != nil {
		res.Err = err.Error()
		return
	}
	res.OK = true
	res.Program = prog
	res.Str = prog.String()
	// the caller reuses its buffer for something else: the Program must not depend on it
	for i := range srcBuf {
		srcBuf[i] = 'Z'
	}
	if again := prog.String(); again != res.Str {
		res.OK = false
		res.Panic = "the parsed Program changed when the caller overwrote the source buffer after ParseProgram had returned: " + firstDiffLine(res.Str, again)
		return
	}
	var buf bytes.Buffer
	if err := prog.Disassemble(&buf); err != nil {
		res.Disasm = "disassemble error: " + err.Error()
	} else {
		res.Disasm = buf.String()
	}
	return
}

func (e c19Engine) Run(scAny any, keep bool) core.Outcome {
	sc := scAny.(*c19Scn)
	switch {
	case sc.Threads > 0:
		return c19RunThreads(sc, keep)
	case sc.Kind == "exec":
		return c19RunExec(sc, keep)
	}
	var out core.Outcome
	var first c19Parse
	verdicts := map[string]bool{}
	for i, ord := range sc.Orders {
		log := core.NewLog(keep)
		if i == 0 {
			for _, b := range sc.Before {
				br, _ := c19ParseOnce(b, sc.Native, 0)
				if br.Panic != "" {
					out.One(1, true)
					out.Fail = &core.Failure{Oracle: "panic", Detail: fmt.Sprintf("parsing panicked: %s\nsource:\n%s", br.Panic, b)}
					return out
				}
				out.Probe("history_parses_before_the_checked_parse", 1)
			}
		}
		res, permuted := c19ParseOnce(sc.Src, sc.Native, ord)
		log.Addf("order %d ok=%v err=%q panic=%q str=%x disasm=%x", ord, res.OK, res.Err, res.Panic, core.HashString(res.Str), core.HashString(res.Disasm))
		out.One(core.Mix(log.Hash(), ord), permuted > 0)
		out.Probe("map_iterations_permuted", permuted)
		if keep {
			out.Log = append(out.Log, log.Lines...)
		}
		if res.Panic != "" {
			out.Fail = &core.Failure{Oracle: "panic", Detail: fmt.Sprintf("parsing panicked under map order %d: %s\nsource:\n%s", ord, res.Panic, sc.Src)}
			return out
		}
		verdicts[res.Err] = true
		if i == 0 {
			first = res
			if res.OK {
				out.Probe("sources_accepted", 1)
			} else {
				out.Probe("sources_rejected", 1)
			}
			continue
		}
		var f *core.Failure
		switch {
		case res.OK != first.OK:
			f = &core.Failure{Oracle: "parse-verdict", Detail: fmt.Sprintf("map order %d: accepted=%v (%s), sorted order: accepted=%v (%s)\nsource:\n%s", ord, res.OK, res.Err, first.OK, first.Err, sc.Src)}
		case res.Err != first.Err:
			f = &core.Failure{Oracle: "parse-error-message", Detail: fmt.Sprintf("map order %d reports %q, sorted order reports %q\nsource:\n%s", ord, res.Err, first.Err, sc.Src)}
			if core.IsOpen("F-C19-1") {
				f.Known = "F-C19-1" // every order rejects; only which independent error is reported varies
			}
		case res.Str != first.Str:
			f = &core.Failure{Oracle: "parse-tree", Detail: fmt.Sprintf("map order %d gives a different Program.String()\nsource:\n%s", ord, sc.Src)}
		case res.Disasm != first.Disasm:
			f = &core.Failure{Oracle: "parse-compiled", Detail: fmt.Sprintf("map order %d gives different compiled code: %s\nsource:\n%s", ord, firstDiffLine(res.Disasm, first.Disasm), sc.Src)}
		}
		if f != nil {
			out.Fail = f
			c := *sc
			c.Orders = []uint64{sc.Orders[0], ord}
			out.Reduced = &c
			return out
		}
	}
	// positions are a function of the source alone: the same source moved down by one line
	// must be rejected with the same message one line further down
	if m := c19ErrPos.FindStringSubmatch(first.Err); !first.OK && m != nil && !c19AnyPos.MatchString(m[3]) {
		shifted, _ := c19ParseOnce("\n"+sc.Src, sc.Native, 0)
		line, _ := strconv.Atoi(m[1])
		want := fmt.Sprintf("parse error at %d:%s: %s", line+1, m[2], m[3])
		out.Probe("rejected_sources_reparsed_one_line_down", 1)
		if shifted.Panic != "" || shifted.OK || shifted.Err != want {
			out.Fail = &core.Failure{Oracle: "parse-error-position", Detail: fmt.Sprintf("the source is rejected with %q; with an empty line in front of it the result is accepted=%v %q %s, expected %q\nsource:\n%s", first.Err, shifted.OK, shifted.Err, shifted.Panic, want, sc.Src)}
		}
	}
	return out
}

var c19ErrPos = regexp.MustCompile(`(?s)^parse error at (\d+):(\d+): (.*)$`)
var c19AnyPos = regexp.MustCompile(`\d+:\d+`)

func firstDiffLine(a, b string) string {
	la, lb := strings.Split(a, "\n"), strings.Split(b, "\n")
	for i := 0; i < len(la) || i < len(lb); i++ {
		var x, y string
		if i < len(la) {
			x = la[i]
		}
		if i < len(lb) {
			y = lb[i]
		}
		if x != y {
			return fmt.Sprintf("line %d: %q vs %q", i+1, x, y)
		}
	}
	return "identical"
}

// ---- deep structural hash of a Program ----

var regexpType = reflect.TypeOf(regexp.Regexp{})

type deepHasher struct {
	h       uint64
	visited map[uintptr]bool
}

func (d *deepHasher) add(x uint64) { d.h = core.Mix(d.h, x) }
func (d *deepHasher) addStr(s string) {
	d.add(core.HashString(s))
}

func (d *deepHasher) walk(v reflect.Value) {
	if !v.IsValid() {
		d.add(0)
		return
	}
	d.add(uint64(v.Kind()))
	switch v.Kind() {
	case reflect.Bool:
		if v.Bool() {
			d.add(1)
		} else {
			d.add(2)
		}
	case reflect.Int, reflect.Int8, reflect.Int16, reflect.Int32, reflect.Int64:
		d.add(uint64(v.Int()))
	case reflect.Uint, reflect.Uint8, reflect.Uint16, reflect.Uint32, reflect.Uint64, reflect.Uintptr:
		d.add(v.Uint())
	case reflect.Float32, reflect.Float64:
		d.addStr(fmt.Sprint(v.Float()))
	case reflect.String:
		d.addStr(v.String())
	case reflect.Ptr:
		if v.IsNil() {
			d.add(3)
			return
		}
		p := v.Pointer()
		if d.visited[p] {
			d.add(4)
			return
		}
		d.visited[p] = true
		d.walk(v.Elem())
	case reflect.Interface:
		if v.IsNil() {
			d.add(5)
			return
		}
		d.addStr(v.Elem().Type().String())
		d.walk(v.Elem())
	case reflect.Struct:
		if v.Type() == regexpType {
			d.addStr(v.FieldByName("expr").String())
			d.walk(v.FieldByName("longest"))
			return
		}
		for i := 0; i < v.NumField(); i++ {
			d.walk(v.Field(i))
		}
	case reflect.Slice:
		if v.IsNil() {
			d.add(6)
			return
		}
		fallthrough
	case reflect.Array:
		d.add(uint64(v.Len()))
		if v.Kind() == reflect.Slice {
			d.add(uint64(v.Cap())) // an append into spare capacity is a modification too
		}
		for i := 0; i < v.Len(); i++ {
			d.walk(v.Index(i))
		}
	case reflect.Map:
		if v.IsNil() {
			d.add(7)
			return
		}
		type kv struct {
			k string
			v reflect.Value
		}
		var items []kv
		it := v.MapRange()
		for it.Next() {
			kh := &deepHasher{visited: d.visited}
			kh.walk(it.Key())
			items = append(items, kv{fmt.Sprintf("%016x", kh.h), it.Value()})
		}
		sort.Slice(items, func(i, j int) bool { return items[i].k < items[j].k })
		d.add(uint64(len(items)))
		for _, it := range items {
			d.addStr(it.k)
			d.walk(it.v)
		}
	case reflect.Func, reflect.Chan, reflect.UnsafePointer:
		if v.IsNil() {
			d.add(8)
		} else {
			d.add(9)
		}
	}
}

func programHash(p *parser.Program) uint64 {
	d := &deepHasher{visited: map[uintptr]bool{}}
	d.walk(reflect.ValueOf(p))
	return d.h
}

// ---- concurrent executions under the seeded scheduler ----

type c19Actor struct {
	idx    int
	resume chan struct{}
	steps  int
	until  int
	done   bool
	abort  bool
	calls  int64 // calls of this execution's own native functions
	res    execResult
	out    *core.SimSink
}

type c19ExecOut struct {
	Stdout string
	Status int
	Err    string
	Panic  string
}

// c19FreshFuncs builds a new Funcs map (new map, new closures) whose functions count their
// calls in *calls: every execution gets its own, as a server would build one per request.
func c19FreshFuncs(calls *int64) map[string]any {
	hit := func() {
		if calls != nil {
			atomic.AddInt64(calls, 1)
		}
	}
	return map[string]any{
		"nat":  func(x float64) float64 { hit(); return x + 1 },
		"nats": func(s string) string { hit(); return "<" + s + ">" },
		"nat2": func(a, b int) int { hit(); return a*10 + b },
		"natb": func(b []byte) string { hit(); return c19Natb(b) },
	}
}

func c19Config(sc *c19Scn, in []byte, sink *core.SimSink, calls *int64) *interp.Config {
	cfg := &interp.Config{Stdin: bytes.NewReader(in), Output: sink, Error: io.Discard, Environ: []string{}}
	if sc.Native {
		cfg.Funcs = c19FreshFuncs(calls)
	}
	if sc.Src == c19EnvExecProgram {
		cfg.Environ = nil // ENVIRON is filled from the process environment
	}
	return cfg
}

func c19RunExec(sc *c19Scn, keep bool) core.Outcome {
	var out core.Outcome
	// One P: the scheduler runs one goroutine at a time anyway, and per-P runtime state
	// (sync.Pool caches) then no longer depends on which thread picks a goroutine up.
	defer runtime.GOMAXPROCS(runtime.GOMAXPROCS(1))
	log := core.NewLog(keep)
	pr, _ := c19ParseOnce(sc.Src, sc.Native, 0)
	if !pr.OK {
		out.One(1, false)
		return out // not an executable program: nothing to check here
	}
	prog := pr.Program
	h0 := programHash(prog)
	// sequential reference, one fresh interpreter per input
	var want []c19ExecOut
	var refSteps []int
	var refCalls []int64
	for _, in := range sc.Inputs {
		sink := core.NewSimSink("out", nil)
		var calls int64
		if sc.Native {
			runtime.GC() // Funcs maps of earlier executions are garbage now: their addresses may be reused
		}
		r, steps, overrun := guardedLimited(prog, c19Config(sc, in, sink, &calls))
		refCalls = append(refCalls, calls)
		if overrun {
			// the single execution does not end within the cap: nothing to compare with
			out.One(1, false)
			out.Probe("reference_execution_exceeded_step_cap", 1)
			return out
		}
		refSteps = append(refSteps, steps)
		want = append(want, c19ExecOut{sink.String(), r.Status, r.errString(), r.Panic})
		if h := programHash(prog); h != h0 {
			out.One(1, true)
			out.Fail = &core.Failure{Oracle: "program-modified", Detail: fmt.Sprintf("a sequential execution changed the parsed Program (hash %016x -> %016x)\nsource:\n%s", h0, h, sc.Src)}
			return out
		}
	}
	// concurrent run under the scheduler
	n := len(sc.Inputs)
	actors := make([]*c19Actor, n)
	events := make(chan *c19Actor)
	var current *c19Actor
	interp.VerifStep = func(kind interp.VerifStepKind) {
		a := current
		a.steps++
		if a.abort {
			panic("verif: aborted by the scheduler")
		}
		if a.steps >= a.until {
			events <- a
			<-a.resume
		}
	}
	defer func() { interp.VerifStep = nil }()
	const maxSteps = 400000
	for i := 0; i < n; i++ {
		a := &c19Actor{idx: i, resume: make(chan struct{}), out: core.NewSimSink("out", nil)}
		actors[i] = a
		it, err := interp.New(prog)
		if err != nil {
			core.Fatal("C19: New: %v", err)
		}
		cfg := c19Config(sc, sc.Inputs[i], a.out, &a.calls)
		rounds := sc.Rounds
		if rounds < 1 {
			rounds = 1
		}
		in := sc.Inputs[i]
		go func() {
			<-a.resume
			for k := 0; k < rounds; k++ {
				if k > 0 {
					it.ResetVars()
					it.ResetRand()
					cfg.Stdin = bytes.NewReader(in)
				}
				a.res = guarded(func() (int, error) { return it.Execute(cfg) })
				if a.res.Panic != "" || a.res.Err != nil {
					break
				}
			}
			a.done = true
			events <- a
		}()
	}
	switches := 0
	tape := 0
	live := n
	var fail *core.Failure
	for live > 0 {
		var runnable []*c19Actor
		for _, a := range actors {
			if !a.done {
				runnable = append(runnable, a)
			}
		}
		choice, q := 0, 1000000
		if tape < len(sc.Choices) {
			choice, q = sc.Choices[tape], sc.Quanta[tape]
			tape++
		}
		if q < 1 {
			q = 1
		}
		a := runnable[choice%len(runnable)]
		a.until = a.steps + q
		current = a
		a.resume <- struct{}{}
		got := <-events
		if got != a {
			core.Fatal("C19: scheduler: event from actor %d while %d was running", got.idx, a.idx)
		}
		switches++
		log.Addf("ran %d for %d steps done=%v", a.idx, q, a.done)
		if a.done {
			live--
		}
		if fail == nil {
			if h := programHash(prog); h != h0 {
				fail = &core.Failure{Oracle: "program-modified", Detail: fmt.Sprintf("the shared Program changed during concurrent executions (hash %016x -> %016x after switch %d)\nsource:\n%s", h0, h, switches, sc.Src)}
			}
		}
		if !a.done && !a.abort {
			// the VM is deterministic: an execution takes exactly the steps of the single one
			rounds := sc.Rounds
			if rounds < 1 {
				rounds = 1
			}
			if limit := 2*rounds*refSteps[a.idx] + 1000; a.steps > limit || a.steps > maxSteps {
				a.abort = true
				if fail == nil {
					fail = &core.Failure{Oracle: "concurrent-vs-sequential", Detail: fmt.Sprintf("interpreter %d of %d sharing one Program is still running after %d VM steps; a single sequential execution takes %d (x %d rounds)\nsource:\n%s", a.idx+1, n, a.steps, refSteps[a.idx], rounds, sc.Src)}
				}
			}
		}
	}
	for i, a := range actors {
		got := c19ExecOut{a.out.String(), a.res.Status, a.res.errString(), a.res.Panic}
		if sc.Rounds > 1 && want[i].Err == "" && want[i].Panic == "" {
			want[i].Stdout = strings.Repeat(want[i].Stdout, sc.Rounds)
		}
		log.Addf("actor %d status=%d err=%q out=%x", i, got.Status, got.Err, core.HashString(got.Stdout))
		out.SimTime += int64(a.steps)
		rounds := sc.Rounds
		if rounds < 1 {
			rounds = 1
		}
		if fail == nil && got == want[i] && got.Err == "" && got.Panic == "" && a.calls != refCalls[i]*int64(rounds) {
			fail = &core.Failure{Oracle: "native-functions", Detail: fmt.Sprintf("interpreter %d of %d: its own native functions (a Funcs map built for this execution) were called %d times; the single execution calls them %d times (x %d rounds): calls went to another execution's functions\nsource:\n%s", i+1, n, a.calls, refCalls[i], rounds, sc.Src)}
		}
		if fail == nil && got != want[i] {
			fail = &core.Failure{Oracle: "concurrent-vs-sequential", Detail: fmt.Sprintf("interpreter %d of %d sharing one Program: status=%d err=%q panic=%q stdout=%q; a single sequential execution gives status=%d err=%q stdout=%q\nsource:\n%s",
				i+1, n, got.Status, got.Err, got.Panic, clip(got.Stdout, 300), want[i].Status, want[i].Err, clip(want[i].Stdout, 300), sc.Src)}
		}
	}
	out.One(log.Hash(), n >= 2 && switches >= 2)
	out.Probe("scheduler_switches", switches)
	out.Probe("program_hash_checks", switches+len(sc.Inputs))
	out.Fail = fail
	if keep {
		out.Log = log.Lines
	}
	return out
}

// guardedLimited runs a program once on a fresh interpreter with a step cap; it returns the
// number of VM steps taken and whether the cap stopped the run.
func guardedLimited(prog *parser.Program, cfg *interp.Config) (execResult, int, bool) {
	steps := 0
	overrun := false
	interp.VerifStep = func(kind interp.VerifStepKind) {
		steps++
		if steps > 400000 {
			overrun = true
			panic("verif: step cap")
		}
	}
	defer func() { interp.VerifStep = nil }()
	it, err := interp.New(prog)
	if err != nil {
		core.Fatal("C19: New: %v", err)
	}
	r := guarded(func() (int, error) { return it.Execute(cfg) })
	return r, steps, overrun
}

// ---- race layer: real goroutines, harness built with -race ----

func c19RunThreads(sc *c19Scn, keep bool) core.Outcome {
	var out core.Outcome
	pr, _ := c19ParseOnce(sc.Src, sc.Native, 0)
	if !pr.OK {
		out.One(1, false)
		return out
	}
	prog := pr.Program
	h0 := programHash(prog)
	// The single executions the concurrent ones are compared with run *after* them: whatever
	// the first use of something in this process does (a cache being filled, a table being
	// built) then happens in several goroutines at once.
	type c19Got struct {
		t, input int
		out      c19ExecOut
	}
	var gots []c19Got
	var wg sync.WaitGroup
	var mu sync.Mutex
	var fail *core.Failure
	for t := 0; t < sc.Threads; t++ {
		t := t
		wg.Add(1)
		go func() {
			defer wg.Done()
			var reused *interp.Interpreter // odd goroutines reuse one Interpreter for all their executions
			prog := prog
			if t%3 == 2 {
				// every third goroutine parses the source itself, while the others parse or
				// execute: the result must be the compiled program of the reference parse
				var pcfg *parser.ParserConfig
				if sc.Native {
					pcfg = &parser.ParserConfig{Funcs: c19funcs}
				}
				own, perr := parser.ParseProgram([]byte(sc.Src), pcfg)
				msg := ""
				if perr != nil {
					msg = "parse error: " + perr.Error()
				} else {
					var buf bytes.Buffer
					_ = own.Disassemble(&buf)
					if own.String() != pr.Str || buf.String() != pr.Disasm {
						msg = "a different compiled program"
					}
				}
				if msg != "" {
					mu.Lock()
					if fail == nil {
						fail = &core.Failure{Oracle: "parse-concurrent", Detail: fmt.Sprintf("goroutine %d parsing the source while others execute it got %s\nsource:\n%s", t, msg, sc.Src)}
					}
					mu.Unlock()
					return
				}
				prog = own
			}
			for rep := 0; rep < sc.Reps; rep++ {
				i := (t + rep) % len(sc.Inputs)
				sink := core.NewSimSink("out", nil)
				it, _ := interp.New(prog)
				if t%2 == 1 {
					if reused == nil {
						reused = it
					}
					it = reused
					it.ResetVars()
					it.ResetRand()
				}
				r := guarded(func() (int, error) { return it.Execute(c19Config(sc, sc.Inputs[i], sink, nil)) })
				got := c19ExecOut{sink.String(), r.Status, r.errString(), r.Panic}
				mu.Lock()
				gots = append(gots, c19Got{t, i, got})
				mu.Unlock()
				runtime.Gosched()
			}
		}()
	}
	wg.Wait()
	var want []c19ExecOut
	for _, in := range sc.Inputs {
		sink := core.NewSimSink("out", nil)
		it, _ := interp.New(prog)
		r := guarded(func() (int, error) { return it.Execute(c19Config(sc, in, sink, nil)) })
		want = append(want, c19ExecOut{sink.String(), r.Status, r.errString(), r.Panic})
	}
	sort.Slice(gots, func(a, b int) bool { return gots[a].t < gots[b].t }) // (stable enough: the first mismatch of the lowest goroutine is reported)
	for _, g := range gots {
		if fail == nil && g.out != want[g.input] {
			fail = &core.Failure{Oracle: "concurrent-vs-sequential", Detail: fmt.Sprintf("goroutine %d: status=%d err=%q panic=%q stdout=%q, sequential: status=%d err=%q stdout=%q\nsource:\n%s",
				g.t, g.out.Status, g.out.Err, g.out.Panic, clip(g.out.Stdout, 200), want[g.input].Status, want[g.input].Err, clip(want[g.input].Stdout, 200), sc.Src)}
		}
	}
	if fail == nil {
		if h := programHash(prog); h != h0 {
			fail = &core.Failure{Oracle: "program-modified", Detail: fmt.Sprintf("the shared Program changed during concurrent executions\nsource:\n%s", sc.Src)}
		}
	}
	out.One(core.HashString(sc.Src), true)
	out.Evals = sc.Threads * sc.Reps
	out.Probe("race_layer_executions", sc.Threads*sc.Reps)
	out.Fail = fail
	return out
}

// GenRace draws a race-layer scenario: an exec scenario run by real goroutines.
func (e c19Engine) GenRace(r *core.Rand, i int) any {
	for {
		sc := e.Gen(r, "thorough", i).(*c19Scn)
		if sc.Kind != "exec" {
			continue
		}
		sc.Quanta, sc.Choices = nil, nil
		sc.Threads = r.Range(4, 12)
		sc.Reps = r.Range(5, 30)
		if r.Chance(1, 4) {
			// dynamic regular expressions no execution of this process has compiled before
			salt := ""
			for k := 0; k < 6; k++ {
				salt += string(rune('k' + r.Intn(10)))
			}
			sc.Src, sc.Native = strings.ReplaceAll(c19SaltedRegexProgram, "SALT", salt), false
		}
		if r.Chance(1, 6) {
			// executions that shell out with the default shell command at the same time
			sc.Src, sc.Native = c19ShellProgram, false
			sc.Threads, sc.Reps = r.Range(4, 8), r.Range(2, 5)
			for k := range sc.Inputs {
				sc.Inputs[k] = core.Bytes(fmt.Sprintf("i%d\nj%d\n", k, k))
			}
		}
		return sc
	}
}

// ---- shrinking ----

func (c19Engine) Shrink(scAny any) []any {
	sc := scAny.(*c19Scn)
	var out []any
	add := func(f func(c *c19Scn)) {
		c := *sc
		c.Orders = append([]uint64(nil), sc.Orders...)
		c.Quanta = append([]int(nil), sc.Quanta...)
		c.Choices = append([]int(nil), sc.Choices...)
		c.Inputs = append([]core.Bytes(nil), sc.Inputs...)
		f(&c)
		out = append(out, &c)
	}
	// drop whole source lines, then statements inside braces
	lines := strings.Split(sc.Src, "\n")
	if len(lines) > 1 {
		for i := range lines {
			i := i
			add(func(c *c19Scn) {
				c.Src = strings.Join(append(append([]string(nil), lines[:i]...), lines[i+1:]...), "\n")
			})
		}
	}
	for li, line := range lines {
		open := strings.Index(line, "{ ")
		end := strings.LastIndex(line, " }")
		if open < 0 || end <= open {
			continue
		}
		stmts := strings.Split(line[open+2:end], "; ")
		if len(stmts) < 2 {
			continue
		}
		for si := range stmts {
			li, si := li, si
			add(func(c *c19Scn) {
				ns := append(append([]string(nil), stmts[:si]...), stmts[si+1:]...)
				nl := append([]string(nil), lines...)
				nl[li] = line[:open+2] + strings.Join(ns, "; ") + line[end:]
				c.Src = strings.Join(nl, "\n")
			})
		}
	}
	for i := range sc.Before {
		i := i
		add(func(c *c19Scn) { c.Before = append(append([]string(nil), sc.Before[:i]...), sc.Before[i+1:]...) })
	}
	if sc.Rounds > 1 {
		add(func(c *c19Scn) { c.Rounds = sc.Rounds - 1 })
	}
	if sc.Kind == "parse" {
		if len(sc.Orders) > 2 {
			for i := 1; i < len(sc.Orders); i++ {
				i := i
				add(func(c *c19Scn) { c.Orders = append(c.Orders[:i:i], c.Orders[i+1:]...) })
			}
		}
		for i, o := range sc.Orders {
			if o > 1 {
				i := i
				add(func(c *c19Scn) { c.Orders[i] = 1 })
			}
		}
		return out
	}
	if len(sc.Inputs) > 2 {
		for i := range sc.Inputs {
			i := i
			add(func(c *c19Scn) { c.Inputs = append(c.Inputs[:i:i], c.Inputs[i+1:]...) })
		}
	}
	for i, in := range sc.Inputs {
		if len(in) > 0 {
			i := i
			add(func(c *c19Scn) { c.Inputs[i] = nil })
			add(func(c *c19Scn) { c.Inputs[i] = c.Inputs[i][:len(c.Inputs[i])/2] })
		}
	}
	if len(sc.Quanta) > 0 {
		add(func(c *c19Scn) { c.Quanta, c.Choices = nil, nil })
		add(func(c *c19Scn) { c.Quanta, c.Choices = c.Quanta[:len(c.Quanta)/2], c.Choices[:len(c.Choices)/2] })
		for i := range sc.Quanta {
			if i < 40 {
				i := i
				add(func(c *c19Scn) {
					c.Quanta = append(c.Quanta[:i:i], c.Quanta[i+1:]...)
					c.Choices = append(c.Choices[:i:i], c.Choices[i+1:]...)
				})
			}
		}
	}
	return out
}
