package eng

import (
	"bufio"
	"context"
	"fmt"
	"io"
	"os"
	"regexp"
	"runtime"
	"sort"
	"strconv"
	"strings"
	"syscall"
	"time"

	"github.com/benhoyt/goawk/interp"
	"github.com/benhoyt/goawk/parser"
	"github.com/benhoyt/goawk/verifharness/core"
)

// ---------------------------------------------------------------------------------------
// C13 — output reaches each destination completely, in order, exactly once.
// ---------------------------------------------------------------------------------------

type c13Op struct {
	// Kind: print | printf | close | fflush | fflushall | system | getline-file | getline-cmd |
	// exit | exit-n | error-div | error-fail | loop | call | if-nr
	Kind string `json:"kind"`
	// Dest of print/printf: "" stdout; "-", "/dev/stdout", "/dev/stderr"; files A B C; commands K1 K2 K3 (sinks), T1 T2 (talkers)
	Dest  string  `json:"dest,omitempty"`
	Redir string  `json:"redir,omitempty"` // "", ">", ">>", "|"
	Big   int     `json:"big,omitempty"`   // payload padded to this many bytes
	Name  string  `json:"name,omitempty"`  // target of close/fflush/getline/system
	K     int     `json:"k,omitempty"`
	Sub   []c13Op `json:"sub,omitempty"`
}

type c13Scn struct {
	Begin   []c13Op `json:"begin,omitempty"`
	Rule    []c13Op `json:"rule,omitempty"`
	End     []c13Op `json:"end,omitempty"`
	Records int     `json:"records,omitempty"`
	// Output flavour of Config.Output: bare | bufio | flush
	Output  string `json:"output"`
	BufSize int    `json:"bufsize,omitempty"`
	CRLF    bool   `json:"crlf,omitempty"`
	// OutMode: "" | csv | tsv output mode (child-free programs; payloads never need quoting, an
	// empty print is written as "")
	OutMode string `json:"out_mode,omitempty"`
	// faults
	HasFail   bool `json:"has_fail,omitempty"`
	FailAt    int  `json:"fail_at,omitempty"`
	FlushFail bool `json:"flush_fail,omitempty"`
	// FailKind: "" generic error, "epipe" (*PathError with EPIPE, the reader went away), "closedpipe" (io.ErrClosedPipe)
	FailKind string `json:"fail_kind,omitempty"`
	DevFull  string `json:"devfull,omitempty"`
	// EMFile: the first open of this file for writing fails with EMFILE ("too many open files")
	EMFile string `json:"emfile,omitempty"`
	// Enum "failat": a write failure at every byte offset of the fault-free standard output
	Enum string `json:"enum,omitempty"`
	// pre-existing files
	Pre map[string]string `json:"pre,omitempty"`
	// Cmds: command name -> script (steps after the name)
	Cmds map[string]string `json:"cmds,omitempty"`
	// Sched: run under the seeded scheduler (layer B); Tape are its choices
	// Warm: the Interpreter is reused: the same program ran once before in a world of its own
	Warm bool `json:"warm,omitempty"`
	// WarmCtx (programs with commands): the Interpreter is reused after an ExecuteContext call of
	// the same program with NoExec set (it fails at its first command), whose context is closed
	// after the call returned; the measured run uses Execute
	WarmCtx bool `json:"warm_ctx,omitempty"`
	// WarmFailAt > 0 (with Warm): standard output of the warm-up run fails from this byte on
	WarmFailAt int   `json:"warm_fail_at,omitempty"`
	Sched      bool  `json:"sched,omitempty"`
	Tape       []int `json:"tape,omitempty"`
	// CLI: the scenario is a run of the real goawk binary (c13cli.go); every other field is unused
	CLI *c13Cli `json:"cli,omitempty"`
}

type c13Entry struct {
	ID     int
	Tok    string
	HasVal bool
	Val    float64
	Line   string
}

type c13State struct {
	ops   map[int]*c13Op
	trace []c13Entry
	ntok  int
	crlf  bool
	yield func(id int) // scheduled runs: park before the operation
}

var c13cur *c13State

func c13Letter(dest string) string {
	switch dest {
	case "":
		return "s"
	case "-":
		return "d"
	case "/dev/stdout":
		return "o"
	case "/dev/stderr":
		return "e"
	case "K1":
		return "k"
	case "K2":
		return "l"
	case "K3":
		return "m"
	case "T1":
		return "t"
	case "T2":
		return "u"
	}
	return dest // files A B C
}

var c13funcs = map[string]any{
	"step": func(id int) {
		c13cur.trace = append(c13cur.trace, c13Entry{ID: id})
		if c13cur.yield != nil {
			c13cur.yield(id)
		}
	},
	"tok": func(id int) string {
		st := c13cur
		st.ntok++
		op := st.ops[id]
		// the counter is written with letters a-j: digits are reserved for child output
		num := []byte(strconv.Itoa(st.ntok))
		for i := range num {
			num[i] = 'a' + (num[i] - '0')
		}
		s := fmt.Sprintf("%s%s;", c13Letter(op.Dest), num)
		if op.Big > len(s) {
			pad := c13Letter(op.Dest)
			if op.Dest == "/dev/stderr" {
				// standard error is compared token-wise (it also carries messages): the padding
				// must not look like the letters of a token counter
				pad = "_"
			}
			s += strings.Repeat(pad, op.Big-len(s))
		}
		st.trace = append(st.trace, c13Entry{ID: id, Tok: s})
		if st.yield != nil {
			st.yield(id)
		}
		return s
	},
	"etok": func(id int) string {
		st := c13cur
		st.trace = append(st.trace, c13Entry{ID: id})
		if st.yield != nil {
			st.yield(id)
		}
		return ""
	},
	"obs": func(id int, v float64) {
		st := c13cur
		for i := len(st.trace) - 1; i >= 0; i-- {
			if st.trace[i].ID == id {
				st.trace[i].HasVal, st.trace[i].Val = true, v
				return
			}
		}
	},
	"obs2": func(id int, v float64, line string) {
		st := c13cur
		for i := len(st.trace) - 1; i >= 0; i-- {
			if st.trace[i].ID == id {
				st.trace[i].HasVal, st.trace[i].Val, st.trace[i].Line = true, v, line
				return
			}
		}
	},
	"fail": func() (int, error) { return 0, fmt.Errorf("native failure") },
}

type c13Engine struct{}

func init() { core.Register(c13Engine{}) }

func (c13Engine) ID() string { return "C13" }
func (c13Engine) Level(tier string) string {
	return "fault_enumeration"
}
func (c13Engine) Rule() string {
	return "scenario = a generated program over output operations (print/printf to stdout, '-', /dev/stdout, /dev/stderr, files with > and >>, commands with |; close, fflush, system, getline from names that are or were outputs, cmd | getline; exit, division by zero, native failure; loops, functions, per-record rules, END) x Config.Output flavour (bare sink, bufio wrapper of drawn size, sink with its own Flush) x newline mode x pre-existing files x fault plan (standard output failing from byte k - 'failat' scenarios enumerate every k of the fault-free output -, flush-only failure, a file on /dev/full) x stub child scripts (sinks, talkers, sources, system children with exit statuses and signals) x a scheduler tape that decides when each child step and each delivery of child output happens. Every payload is attributable (one alphabet per destination, digits per child). The destinations are compared with a reference model driven by the observed operation trace. One evaluation = one execution. Distinct = distinct event-log hash; non-trivial = at least one redirected destination or child was used, or a fault fired."
}
func (c13Engine) Assumptions() []string {
	return []string{
		"the reference model is driven by the observed trace of started operations (native step()/tok()), so control flow is not re-evaluated; the last started operation of a run that ends with an error may have had no or full effect on a file",
		"a child's output that shares standard output is attributed by content (digits), program output by letters",
		"files on /dev/full are excluded from the content comparison (the statement promises a failing run only for standard output)",
		"real pipes, process start/exit and signal delivery are the kernel's; only their timing relative to the interpreter is decided by the simulator (control-socket handshakes, deliveries parked inside the sink)",
	}
}
func (c13Engine) Components() map[string]string {
	return map[string]string{
		"print/printf, output streams, close, fflush, system, closeAll, os/exec pipes and copier goroutines": "real",
		"standard output/error": "stub (SimSink behind a real bufio.Writer or a flush-sink)", "files": "real files behind Config.OpenFile (SimFS, /dev/full fault)",
		"child processes": "real processes running stub simsh, every step released by the simulator", "scheduler": "simulated (tape-driven release of child steps and deliveries)",
		"goawk binary (goawk.go)": "real, CLI layer only (one scenario in twelve): a process with real /bin/sh children, standard output on a file, a pipe, /dev/full or a pipe without reader",
	}
}
func (c13Engine) Count(tier string) int {
	if tier == "thorough" {
		return 120000
	}
	return 3500
}
func (c13Engine) BudgetS(tier string) int {
	if tier == "thorough" {
		return 1200
	}
	return 55
}
func (c13Engine) Workers(tier string) int { return 0 }
func (c13Engine) NewScenario() any        { return &c13Scn{} }

// ---- generation ----

func c13GenOps(r *core.Rand, depth int, kids string, inRule bool) []c13Op {
	n := r.Range(1, 5)
	if depth == 0 {
		n = r.Range(1, 7)
	}
	var ops []c13Op
	files := []string{"A", "B", "C"}
	for i := 0; i < n; i++ {
		var op c13Op
		switch k := r.Intn(100); {
		case k < 42:
			op.Kind = core.Pick(r, []string{"print", "print", "printf"})
			switch d := r.Intn(20); {
			case d < 6:
				op.Dest = ""
			case d < 7:
				op.Dest, op.Redir = core.Pick(r, []string{"-", "/dev/stdout", "/dev/stderr"}), core.Pick(r, []string{">", ">>"})
			case d < 16 || kids == "none":
				op.Dest, op.Redir = core.Pick(r, files), core.Pick(r, []string{">", ">", ">>"})
			default:
				op.Dest, op.Redir = core.Pick(r, []string{"K1", "K2"}), "|"
				if kids == "talkers" && r.Bool() {
					op.Dest = core.Pick(r, []string{"T1", "T2"})
				}
			}
			if r.Chance(1, 40) {
				op.Big = core.Pick(r, []int{4096, 65536, 70000, 131100})
			}
			if kids == "none" && op.Big == 0 && r.Chance(1, 8) {
				op.Kind += "-empty" // print "" / printf "%s", "": nothing or just the terminator is written, the destination is opened all the same
			}
		case k < 56:
			op.Kind = "close"
			op.Name = core.Pick(r, append([]string{"K1", "K2", "T1", "/dev/stdout", "nope"}, files...))
			if kids == "none" {
				op.Name = core.Pick(r, append([]string{"nope"}, files...))
			}
		case k < 62:
			op.Kind = core.Pick(r, []string{"fflush", "fflushall"})
			op.Name = core.Pick(r, append([]string{"K1", "nope"}, files...))
		case k < 68 && kids != "none":
			op.Kind = "system"
			op.Name = core.Pick(r, []string{"S1", "S2", "P1"})
		case k < 74:
			op.Kind = "getline-file"
			op.Name = core.Pick(r, append([]string{"missing"}, files...))
		case k < 77 && kids != "none":
			op.Kind = "getline-cmd"
			op.Name = core.Pick(r, []string{"G1", "K1"})
		case k < 80:
			op.Kind = core.Pick(r, []string{"exit", "exit-n", "error-div", "error-fail"})
			op.K = r.Range(0, 5)
		case k < 88 && depth < 2:
			op.Kind = core.Pick(r, []string{"loop", "call"})
			op.K = r.Range(1, 3)
			op.Sub = c13GenOps(r, depth+1, kids, inRule)
		case k < 92 && depth < 2 && inRule:
			op.Kind = "if-nr"
			op.K = r.Range(1, 3)
			op.Sub = c13GenOps(r, depth+1, kids, inRule)
		default:
			op.Kind = "print"
		}
		ops = append(ops, op)
	}
	return ops
}

// c13GenSchedOps draws operations for a scheduled (layer B) program.
func c13GenSchedOps(r *core.Rand, depth int) []c13Op {
	n := r.Range(2, 8)
	if depth > 0 {
		n = r.Range(1, 3)
	}
	var ops []c13Op
	for i := 0; i < n; i++ {
		var op c13Op
		switch k := r.Intn(100); {
		case k < 35:
			op = c13Op{Kind: core.Pick(r, []string{"print", "printf"})}
		case k < 45:
			op = c13Op{Kind: "print", Dest: core.Pick(r, []string{"A", "B"}), Redir: core.Pick(r, []string{">", ">>"})}
		case k < 70:
			op = c13Op{Kind: core.Pick(r, []string{"print", "printf"}), Dest: core.Pick(r, []string{"T1", "T2", "T1", "K1"}), Redir: "|"}
		case k < 82:
			op = c13Op{Kind: "close", Name: core.Pick(r, []string{"T1", "T2", "K1", "A", "nope"})}
		case k < 86:
			op = c13Op{Kind: core.Pick(r, []string{"fflush", "fflushall"}), Name: core.Pick(r, []string{"T1", "A"})}
		case k < 93:
			op = c13Op{Kind: "system", Name: core.Pick(r, []string{"S1", "S2"})}
		case k < 95:
			op = c13Op{Kind: core.Pick(r, []string{"exit", "exit-n", "error-div"}), K: r.Range(0, 3)}
		case k < 100 && depth == 0:
			op = c13Op{Kind: core.Pick(r, []string{"loop", "call"}), K: r.Range(1, 2), Sub: c13GenSchedOps(r, depth+1)}
		default:
			op = c13Op{Kind: "print"}
		}
		ops = append(ops, op)
	}
	return ops
}

func (c13Engine) Gen(r *core.Rand, tier string, i int) any {
	if i%12 == 5 {
		return c13GenCli(r) // CLI layer: the real binary
	}
	sc := &c13Scn{}
	kids := "none"
	switch r.Intn(12) {
	case 0, 1:
		kids = "sinks"
	case 2:
		kids = "talkers"
	}
	sc.Begin = c13GenOps(r, 0, kids, false)
	if r.Chance(1, 2) {
		sc.Rule = c13GenOps(r, 0, kids, true)
		sc.Records = r.Range(1, 3)
	}
	if r.Chance(1, 2) {
		sc.End = c13GenOps(r, 0, kids, false)
	}
	sc.Output = core.Pick(r, []string{"bare", "bufio", "bufio-real", "flush"})
	sc.Warm = kids == "none" && r.Chance(1, 6)
	sc.WarmCtx = kids != "none" && r.Chance(1, 5)
	if sc.Warm && r.Chance(1, 3) {
		sc.WarmFailAt = r.Range(1, 12)
	}
	if kids == "talkers" {
		// A child that writes to the shared standard output while the program does (finding
		// F-C13-1) corrupts an unsynchronised buffered writer: with a real bufio.Writer the
		// os/exec copier goroutine has been seen to panic in bufio.(*Writer).ReadFrom (slice
		// bounds out of range), which no harness can recover. Such runs use the mutex-protected
		// bare sink; the overlap itself is observed by the scheduler.
		sc.Output = "bare"
	}
	if kids != "none" && sc.Output == "bufio-real" {
		// Even a silent command started with print | cmd makes os/exec's copier goroutine sit in
		// bufio.(*Writer).ReadFrom, holding the buffer, while the program writes (F-C13-1):
		// the real *bufio.Writer is only used in child-free runs.
		sc.Output = "bufio"
	}
	sc.BufSize = core.Pick(r, []int{16, 64, 4096, 65536})
	sc.CRLF = r.Chance(1, 8)
	if kids == "none" && r.Chance(1, 5) {
		sc.OutMode = core.Pick(r, []string{"csv", "tsv"})
	}
	if r.Chance(1, 3) {
		sc.Pre = map[string]string{}
		for _, f := range []string{"A", "B", "C"} {
			if r.Bool() {
				sc.Pre[f] = "old" + f + "\n"
			}
		}
	}
	sc.Cmds = map[string]string{
		"K1": "slurp;exit:" + strconv.Itoa(r.Range(0, 3)),
		// (the tail is never executed; it makes the command text one that path canonicalisation would change)
		"K2": "slurp;exit:" + strconv.Itoa(core.Pick(r, []int{0, 7, 255})) + ";nop:a//b/./c/../",
		"K3": "slurp;kill:9",
		"S1": "emit:111;exit:" + strconv.Itoa(r.Range(0, 3)),
		"S2": "emit:22;emit:2222;exit:0",
		"G1": "emit:g1a\ng1b\n;exit:4",
		"T1": "emit:333;slurp;emit:33333;exit:1",
		"T2": "slurp;emit:4444;exit:0",
		"P1": "append:@A:55555\n;exit:0", // another writer appending to file A (system child)
	}
	if r.Chance(1, 20) {
		sc.Cmds["K1"] = "exit:5" // exits before reading its input
	}
	switch f := r.Intn(20); {
	case f < 4 && kids == "none":
		sc.Enum = "failat"
		sc.FailKind = core.Pick(r, []string{"", "", "", "epipe", "eagain"})
	case f < 7:
		sc.HasFail = true
		sc.FailKind = core.Pick(r, []string{"", "", "epipe", "closedpipe"})
		if kids == "none" && r.Chance(1, 5) {
			sc.FailKind = "eagain"
		}
		sc.FailAt = r.Intn(60)
		if r.Chance(1, 4) {
			sc.FailAt = r.Intn(70000)
		}
	case f < 8 && kids != "talkers":
		sc.Output = "flush"
		sc.FlushFail = true
	case f < 9:
		sc.DevFull = core.Pick(r, []string{"A", "B"})
	case f < 10:
		sc.EMFile = core.Pick(r, []string{"A", "B", "C"})
	}
	if sc.FailKind == "eagain" {
		// one failing write, then the descriptor works again: only an unbuffered destination makes
		// "nothing more is delivered after the failed statement" a consequence of the property (a
		// buffering writer of the caller may legitimately deliver its buffer at a later flush)
		sc.Output, sc.FlushFail = "bare", false
	}
	if kids == "talkers" && r.Chance(3, 4) {
		// layer B: straight-line programs under the seeded scheduler (bare sink, fault-free)
		sc.Sched = true
		sc.Begin = c13GenSchedOps(r, 0)
		sc.Rule, sc.Records = nil, 0
		sc.End = nil
		if r.Chance(1, 3) {
			sc.End = c13GenSchedOps(r, 1)
		}
		sc.Output, sc.HasFail, sc.FlushFail, sc.DevFull, sc.Enum, sc.CRLF = "bare", false, false, "", "", false
		for n := r.Range(0, 60); n > 0; n-- {
			sc.Tape = append(sc.Tape, r.Intn(16))
		}
		if r.Chance(1, 6) {
			// a command that exits without reading: whether it is already gone when close()
			// flushes to it (EPIPE) is the tape's decision; close() must reap it and report its
			// exit status either way
			sc.Cmds["K1"] = "exit:5"
			sc.Begin = append([]c13Op{{Kind: "print", Dest: "K1", Redir: "|"}, {Kind: "print"}, {Kind: "print", Dest: "K1", Redir: "|"}, {Kind: "close", Name: "K1"}}, sc.Begin...)
		}
	}
	return sc
}

// ---- program text ----

type c13Gen struct {
	n     int
	ops   map[int]*c13Op
	funcs []string
}

func c13Target(name string) string {
	switch name {
	case "A", "B", "C", "missing", "nope", "/dev/stdout", "-", "/dev/stderr":
		return strconv.Quote(name)
	}
	return "cmd" + name // an AWK variable holding the command string
}

func (g *c13Gen) gen(ops []c13Op) string {
	var sb strings.Builder
	for i := range ops {
		op := &ops[i]
		g.n++
		id := g.n
		g.ops[id] = op
		redir := ""
		if op.Redir != "" {
			redir = " " + op.Redir + " " + c13Target(op.Dest)
		}
		switch op.Kind {
		case "print":
			fmt.Fprintf(&sb, "print tok(%d)%s; ", id, redir)
		case "print-empty":
			fmt.Fprintf(&sb, "print etok(%d)%s; ", id, redir)
		case "printf-empty":
			fmt.Fprintf(&sb, "printf \"%%s\", etok(%d)%s; ", id, redir)
		case "printf":
			fmt.Fprintf(&sb, "printf \"%%s\", tok(%d)%s; ", id, redir)
		case "close":
			fmt.Fprintf(&sb, "step(%d); obs(%d, close(%s)); ", id, id, c13Target(op.Name))
		case "fflush":
			fmt.Fprintf(&sb, "step(%d); obs(%d, fflush(%s)); ", id, id, c13Target(op.Name))
		case "fflushall":
			fmt.Fprintf(&sb, "step(%d); obs(%d, fflush()); ", id, id)
		case "system":
			fmt.Fprintf(&sb, "step(%d); obs(%d, system(%s)); ", id, id, c13Target(op.Name))
		case "getline-file":
			fmt.Fprintf(&sb, "step(%d); r = (getline line < %s); obs2(%d, r, line); ", id, c13Target(op.Name), id)
		case "getline-cmd":
			fmt.Fprintf(&sb, "step(%d); r = (%s | getline line); obs2(%d, r, line); ", id, c13Target(op.Name), id)
		case "exit":
			fmt.Fprintf(&sb, "step(%d); exit; ", id)
		case "exit-n":
			fmt.Fprintf(&sb, "step(%d); exit %d; ", id, op.K)
		case "error-div":
			fmt.Fprintf(&sb, "step(%d); x = 1 / zero; ", id)
		case "error-fail":
			fmt.Fprintf(&sb, "step(%d); fail(); ", id)
		case "loop":
			fmt.Fprintf(&sb, "for (i%d = 0; i%d < %d; i%d++) { %s} ", id, id, op.K, id, g.gen(op.Sub))
		case "if-nr":
			fmt.Fprintf(&sb, "if (NR == %d) { %s} ", op.K, g.gen(op.Sub))
		case "call":
			g.funcs = append(g.funcs, fmt.Sprintf("function fn%d() { %s}", id, g.gen(op.Sub)))
			fmt.Fprintf(&sb, "fn%d(); ", id)
		}
	}
	return sb.String()
}

func c13Source(sc *c13Scn) (string, map[int]*c13Op) {
	g := &c13Gen{ops: map[int]*c13Op{}}
	var parts []string
	if len(sc.Begin) > 0 {
		parts = append(parts, "BEGIN { "+g.gen(sc.Begin)+"}")
	}
	if len(sc.Rule) > 0 {
		parts = append(parts, "{ "+g.gen(sc.Rule)+"}")
	}
	if len(sc.End) > 0 || sc.Sched {
		g.ops[-1] = &c13Op{Kind: "end-start", K: g.n + 1} // ids >= K belong to the END block
		end := g.gen(sc.End)
		if sc.Sched {
			// the scheduler must know when the program is over and closeAll begins
			end += fmt.Sprintf("step(%d); ", c13LastOp)
			g.ops[c13LastOp] = &c13Op{Kind: "marker"}
		}
		parts = append(parts, "END { "+end+"}")
	}
	return strings.Join(append(g.funcs, parts...), "\n"), g.ops
}

// ---- reference model of the destinations (trace-driven) ----

type c13Model struct {
	sc          *c13Scn
	files       map[string]string
	open        map[string]string // name -> file | cmd | infile | incmd
	emfileFired bool
	openTrunc   map[string]bool   // file is open and was opened with > (no O_APPEND)
	skipFile    map[string]bool   // content not determined (another writer wrote into a file open without O_APPEND)
	spans       map[string]string // command instance name (K1, K1#2, ...) -> bytes printed to it
	curInst     map[string]string // command name -> instance currently open for output
	stdout      strings.Builder   // exact expected stdout (program bytes and synchronous system children)
	stderrE     strings.Builder   // 'e' tokens only
	runErr      bool              // the run must end with an error at the last started operation
	vals        map[int]float64   // trace index -> expected return value
	lines       map[int]string    // trace index -> expected line read
	status      int
	// startedBefore[name#n] = number of program stdout bytes printed before that child was started
	startedAfter map[string]int
	inst         map[string]int
}

func c13IsFile(n string) bool { return n == "A" || n == "B" || n == "C" || n == "missing" }

func (m *c13Model) nl(s string) string {
	if m.sc.CRLF {
		return strings.ReplaceAll(s, "\n", "\r\n")
	}
	return s
}

func c13ExitStatus(script string) float64 {
	for _, st := range strings.Split(script, ";") {
		if strings.HasPrefix(st, "exit:") {
			n, _ := strconv.Atoi(st[5:])
			return float64(n)
		}
		if strings.HasPrefix(st, "kill:") {
			n, _ := strconv.Atoi(st[5:])
			return float64(256 + n)
		}
	}
	return 0
}

func c13Emits(script string) string {
	var sb strings.Builder
	for _, st := range strings.Split(script, ";") {
		if strings.HasPrefix(st, "emit:") {
			sb.WriteString(st[5:])
		}
	}
	return sb.String()
}

func (m *c13Model) startCmd(name string) string {
	m.inst[name]++
	inst := name
	if m.inst[name] > 1 {
		inst = fmt.Sprintf("%s#%d", name, m.inst[name])
	}
	m.startedAfter[inst] = m.stdout.Len()
	return inst
}

// apply one started operation; complete=false for the last operation of a run that ended with an error
func (m *c13Model) apply(idx int, e c13Entry, op *c13Op, complete bool) {
	switch op.Kind {
	case "print", "printf", "print-empty", "printf-empty":
		text := e.Tok
		if op.Kind == "print-empty" && m.sc.OutMode != "" {
			text = `""` // a record of one empty field
		}
		if op.Kind != "printf" && op.Kind != "printf-empty" {
			text += "\n"
		}
		text = m.nl(text)
		switch {
		case op.Redir == "" || op.Dest == "-" || op.Dest == "/dev/stdout":
			if op.Redir != "" {
				if k := m.open[op.Dest]; k == "infile" || k == "incmd" {
					m.runErr = true
					return
				}
			}
			m.stdout.WriteString(text)
		case op.Dest == "/dev/stderr":
			m.stderrE.WriteString(text)
		case op.Redir == "|":
			switch m.open[op.Dest] {
			case "incmd", "infile":
				m.runErr = true
				return
			case "":
				m.open[op.Dest] = "cmd"
				inst := m.startCmd(op.Dest)
				m.curInst[op.Dest] = inst
				m.spans[inst] = ""
			}
			if complete {
				m.spans[m.curInst[op.Dest]] += text
			}
		default: // file
			onDevFull := op.Dest == m.sc.DevFull // the handle is /dev/full: the real file is never touched
			switch m.open[op.Dest] {
			case "infile", "incmd":
				m.runErr = true
				return
			case "":
				if op.Dest == m.sc.EMFile && !m.emfileFired {
					// the open fails: the run ends with an error, nothing is truncated or written
					m.emfileFired = true
					m.runErr = true
					return
				}
				m.open[op.Dest] = "file"
				m.openTrunc[op.Dest] = op.Redir == ">"
				if onDevFull {
					break
				}
				if op.Redir == ">" {
					m.files[op.Dest] = ""
				} else if _, ok := m.files[op.Dest]; !ok {
					m.files[op.Dest] = ""
				}
			}
			if complete && !onDevFull {
				m.files[op.Dest] += text
			}
		}
	case "close":
		switch m.open[op.Name] {
		case "file", "infile":
			m.vals[idx] = 0
		case "cmd", "incmd":
			m.vals[idx] = c13ExitStatus(m.sc.Cmds[op.Name])
		default:
			m.vals[idx] = -1
		}
		delete(m.open, op.Name)
	case "fflush":
		if k := m.open[op.Name]; k == "file" || k == "cmd" {
			m.vals[idx] = 0
		} else {
			m.vals[idx] = -1
		}
	case "fflushall":
		m.vals[idx] = 0
	case "system":
		m.startCmd(op.Name)
		m.stdout.WriteString(c13Emits(m.sc.Cmds[op.Name]))
		m.vals[idx] = c13ExitStatus(m.sc.Cmds[op.Name])
		for _, st := range strings.Split(m.sc.Cmds[op.Name], ";") {
			if strings.HasPrefix(st, "append:@A:") && m.sc.DevFull != "A" {
				if m.open["A"] == "file" && m.openTrunc["A"] {
					// opened with > (no O_APPEND): like any awk, later writes go to the stream's own
					// offset and may overwrite what the other writer appended - not specified
					m.skipFile["A"] = true
				}
				// system() flushes every stream first, so what the program printed so far is on
				// disk; the other writer's bytes follow, and later program output follows those
				m.files["A"] += st[len("append:@A:"):]
			}
		}
	case "getline-file":
		switch m.open[op.Name] {
		case "file", "cmd":
			m.runErr = true
			return
		}
		content, exists := m.files[op.Name]
		if !exists {
			m.vals[idx] = -1
			return
		}
		if m.open[op.Name] == "" {
			m.open[op.Name] = "infile"
			// the first line of the file as it is on disk now
			if content == "" {
				m.vals[idx] = 0
			} else {
				m.vals[idx] = 1
				line := content
				if i := strings.Index(line, "\n"); i >= 0 {
					line = line[:i]
				}
				m.lines[idx] = strings.TrimSuffix(line, "\r")
			}
		} else {
			m.vals[idx] = -2 // later reads of the same stream: result not modelled
		}
	case "getline-cmd":
		switch m.open[op.Name] {
		case "file", "cmd":
			m.runErr = true
			return
		}
		if m.open[op.Name] == "" {
			m.open[op.Name] = "incmd"
			m.startCmd(op.Name)
			out := c13Emits(m.sc.Cmds[op.Name])
			if out == "" {
				m.vals[idx] = 0
			} else {
				m.vals[idx] = 1
				line := out
				if i := strings.Index(line, "\n"); i >= 0 {
					line = line[:i]
				}
				m.lines[idx] = line
			}
		} else {
			m.vals[idx] = -2
		}
	case "marker":
	case "exit-n":
		m.status = op.K
	case "error-div", "error-fail":
		m.runErr = true
	}
}

// ---- execution ----

// outWrap is Config.Output for the "bufio" flavour: a real bufio.Writer, with the errors
// that Write and Flush return to the interpreter counted separately.
type outWrap struct {
	bw                   *bufio.Writer
	writeErrs, flushErrs int
}

func (o *outWrap) Write(p []byte) (int, error) {
	n, err := o.bw.Write(p)
	// a child's output (digits) is written by the os/exec copier, not by the interpreter
	if err != nil && !(len(p) > 0 && p[0] >= '0' && p[0] <= '9') {
		o.writeErrs++
	}
	return n, err
}
func (o *outWrap) WriteString(s string) (int, error) {
	n, err := o.bw.WriteString(s)
	if err != nil && !(len(s) > 0 && s[0] >= '0' && s[0] <= '9') {
		o.writeErrs++
	}
	return n, err
}
func (o *outWrap) Flush() error {
	err := o.bw.Flush()
	if err != nil {
		o.flushErrs++
	}
	return err
}

type c13Result struct {
	Trace              []c13Entry
	Res                execResult
	Stdout             string
	Stderr             string
	Files              map[string]string
	Got                map[string]string // child instance name -> bytes it read
	Exited             map[string]bool
	Started            []string
	Alive              []string
	SinkFails          int
	WriteErrs          int // errors returned to the interpreter by Output.Write
	FlushErrs          int // errors returned to the interpreter by Output.Flush
	Overlaps           int
	ChildWriteFails    int
	FailedAtTrace      int // bufio-real: number of started operations when the sink first failed (-1: never)
	SchedOverlaps      []string
	SchedCloseOverlaps []string
	Async              bool
	Deadlock           string
	Sched              int
}

func c13Exec(sc *c13Scn, src string, ops map[int]*c13Op, failAt int, log *core.Log) *c13Result {
	res := &c13Result{Got: map[string]string{}, Exited: map[string]bool{}}
	st := &c13State{ops: ops, crlf: sc.CRLF}
	c13cur = st
	prog, perr := parser.ParseProgram([]byte(src), &parser.ParserConfig{Funcs: c13funcs})
	if perr != nil {
		core.Fatal("C13: generated program does not parse: %v\n%s", perr, src)
	}
	fs, err := core.NewSimFS(scratchBase(), nil)
	if err != nil {
		core.Fatal("C13: simfs: %v", err)
	}
	defer fs.Remove()
	for name, content := range sc.Pre {
		_ = fs.Put(name, []byte(content))
	}
	var recs strings.Builder
	for i := 1; i <= sc.Records; i++ {
		fmt.Fprintf(&recs, "r%d\n", i)
	}
	_ = fs.Put("recs", []byte(recs.String()))
	if sc.DevFull != "" {
		fs.Plan[sc.DevFull] = core.FaultDevFull
	}
	if sc.EMFile != "" {
		fs.Plan[sc.EMFile] = core.FaultEMFILE
		fs.Once[sc.EMFile] = true
	}
	// The sink does not log single writes: child output arrives through os/exec copier goroutines
	// whose chunking is the kernel's business (and, under the scheduler, is logged at release).
	sink := core.NewSimSink("stdout", nil)
	sink.FailAt = failAt
	switch sc.FailKind {
	case "epipe":
		sink.FailErr = &os.PathError{Op: "write", Path: "|1", Err: syscall.EPIPE}
	case "closedpipe":
		sink.FailErr = io.ErrClosedPipe
	case "eagain":
		// a descriptor in non-blocking mode: one write is short and reports EAGAIN, later writes
		// would succeed - the run has failed all the same, and nothing may be delivered twice
		sink.FailErr = &os.PathError{Op: "write", Path: "/dev/stdout", Err: syscall.EAGAIN}
		sink.Transient = true
	}
	stderr := core.NewSimSink("stderr", nil)
	res.FailedAtTrace = -1
	var out io.Writer = sink
	var wrap *outWrap
	var fsink *core.FlushSink
	switch sc.Output {
	case "bufio":
		size := sc.BufSize
		if size < 16 {
			size = 16
		}
		wrap = &outWrap{bw: bufio.NewWriterSize(sink, size)}
		out = wrap
	case "bufio-real":
		// exactly what the goawk CLI passes: a *bufio.Writer (some code paths type-assert it).
		// Errors cannot be counted here; instead the operation during which the sink first
		// failed is recorded: bufio's error is sticky, so every later write to standard output
		// must have returned it to the interpreter.
		size := sc.BufSize
		if size < 16 {
			size = 16
		}
		out = bufio.NewWriterSize(sink, size)
		sink.OnFail = func() {
			res.FailedAtTrace = len(st.trace)
			// who is flushing? bufio's Write/WriteString overflowing inside a print returns the
			// error to the interpreter; a Flush called by closeAll/fflush/flushOutputAndError or by
			// the os/exec copier does not
			pcs := make([]uintptr, 40)
			frames := runtime.CallersFrames(pcs[:runtime.Callers(2, pcs)])
			viaWrite, viaExec := false, false
			for {
				fr, more := frames.Next()
				if strings.HasSuffix(fr.Function, "bufio.(*Writer).WriteString") || strings.HasSuffix(fr.Function, "bufio.(*Writer).Write") {
					viaWrite = true
				}
				if strings.Contains(fr.Function, "os/exec.") {
					viaExec = true
				}
				if !more {
					break
				}
			}
			if viaWrite && !viaExec {
				res.WriteErrs++
			}
		}
	case "flush":
		fsink = &core.FlushSink{Sink: sink, FlushFail: sc.FlushFail}
		out = fsink
	}
	srv, err := core.NewChildServer(fs.Dir)
	if err != nil {
		core.Fatal("C13: child server: %v", err)
	}
	defer srv.Close()
	vars := []string{"zero", "0"}
	var names []string
	for name := range sc.Cmds {
		names = append(names, name)
	}
	sort.Strings(names)
	for _, name := range names {
		vars = append(vars, "cmd"+name, name+";"+strings.ReplaceAll(sc.Cmds[name], "@A", fs.Path("A")))
	}
	cfg := &interp.Config{
		Stdin: nullFile(), Output: out, Error: stderr, Funcs: c13funcs, Environ: []string{}, Vars: vars,
		OpenFile: fs.Open, ShellCommand: []string{simshPath(), srv.Path}, NewlineOutput: interp.RawNewlineMode,
	}
	if len(sc.Rule) > 0 {
		cfg.Args = []string{"recs"}
	}
	switch sc.OutMode {
	case "csv":
		cfg.OutputMode = interp.CSVMode
	case "tsv":
		cfg.OutputMode = interp.TSVMode
	}
	if sc.CRLF {
		cfg.NewlineOutput = interp.CRLFNewlineMode
	}
	run := func() execResult { return execProgram(prog, cfg) }
	if (sc.Warm || sc.WarmCtx) && !sc.Sched {
		it, ierr := interp.New(prog)
		if ierr != nil {
			core.Fatal("C13: New: %v", ierr)
		}
		// an earlier complete run of the same program on the same Interpreter, fault-free, in a
		// world of its own (own files, own sink); nothing of it may reach the measured run
		wfs, werr := core.NewSimFS(scratchBase(), nil)
		if werr != nil {
			core.Fatal("C13: simfs: %v", werr)
		}
		_ = wfs.Put("recs", []byte(recs.String()))
		warm := *cfg
		wsink := core.NewSimSink("warm", nil)
		if sc.WarmFailAt > 0 {
			wsink.FailAt = sc.WarmFailAt
		}
		warm.Output, warm.Error, warm.OpenFile = wsink, core.NewSimSink("warmerr", nil), wfs.Open
		warm.Stdin = nullFile()
		c13cur = &c13State{ops: ops, crlf: sc.CRLF}
		var wr execResult
		if sc.WarmCtx {
			warm.NoExec = true
			wctx := core.NewSimContext()
			wr = guarded(func() (int, error) { return it.ExecuteContext(wctx, &warm) })
			wctx.Cancel(context.Canceled) // the usual "defer cancel()" of the caller
		} else {
			wr = guarded(func() (int, error) { return it.Execute(&warm) })
		}
		wfs.Remove()
		c13cur = st
		if wr.Panic != "" {
			res.Res = wr
			res.Trace = st.trace
			return res
		}
		it.ResetVars()
		run = func() execResult { return guarded(func() (int, error) { return it.Execute(cfg) }) }
	}
	if sc.Sched {
		c13RunScheduled(sc, ops, srv, sink, run, res, log)
	} else {
		done := make(chan execResult, 1)
		go func() { done <- run() }()
		c13Schedule(sc, srv, sink, done, res, log)
	}
	// Everything a child sent before it went away is already queued: drain it.
	for drained := false; !drained; {
		select {
		case ev := <-srv.Events:
			c13ChildEvent(ev, res, false)
		default:
			drained = true
		}
	}
	for _, k := range srv.Children() {
		if k.Gone {
			res.Exited[k.Name] = true
		}
	}
	res.Trace = st.trace
	res.Stdout = sink.String()
	res.Stderr = stderr.String()
	res.Files = fs.Snapshot()
	delete(res.Files, "recs")
	res.SinkFails = sink.Failed
	res.Overlaps = sink.Overlaps
	if wrap != nil {
		res.WriteErrs, res.FlushErrs = wrap.writeErrs, wrap.flushErrs
	}
	if fsink != nil {
		res.FlushErrs = fsink.FlushErrs
	}
	if sc.Output == "bufio-real" && res.FailedAtTrace >= 0 {
		// a print to standard output that started after the failing flush got the sticky error
		for i := res.FailedAtTrace; i < len(st.trace); i++ {
			op := ops[st.trace[i].ID]
			if (op.Kind == "print" || op.Kind == "printf" || op.Kind == "print-empty" || op.Kind == "printf-empty") && (op.Redir == "" || op.Dest == "-" || op.Dest == "/dev/stdout") {
				res.WriteErrs++
			}
		}
		res.FlushErrs = 1
	}
	if sc.Output == "bare" {
		// failed writes of the program itself (letters); a failed delivery of a child's output
		// (digits, written by the os/exec copier) is reported through system()/close() instead
		for _, h := range sink.FailedHeads {
			if h < '0' || h > '9' {
				res.WriteErrs++
			}
		}
		res.ChildWriteFails = sink.Failed - res.WriteErrs
	}
	for _, e := range res.Trace {
		val := e.Val
		if op := ops[e.ID]; op != nil && res.SinkFails > 0 && (op.Kind == "system" || op.Kind == "close") {
			val = -99 // whether the child dies of SIGPIPE or the copy fails first is the kernel's timing
		}
		log.Addf("op %d tok=%q val=%v/%v line=%q", e.ID, clip(e.Tok, 24), e.HasVal, val, e.Line)
	}
	stdoutForLog := res.Stdout
	if c13UsesTalkers(sc) && (!sc.Sched || res.Async) {
		// free-running children that share stdout: only the projections are determined
		var letters, digits []byte
		for i := 0; i < len(stdoutForLog); i++ {
			if c := stdoutForLog[i]; c >= '0' && c <= '9' {
				digits = append(digits, c)
			} else {
				letters = append(letters, c)
			}
		}
		sort.Slice(digits, func(i, j int) bool { return digits[i] < digits[j] })
		stdoutForLog = string(letters) + "|" + string(digits)
	}
	if os.Getenv("VERIF_DEBUG") != "" {
		fmt.Fprintf(os.Stderr, "STDOUT %q\nNORM %q\n", res.Stdout, stdoutForLog)
	}
	log.Addf("sinkfails=%d status=%d err=%q panic=%q stdout=%x files=%x got=%v", res.SinkFails, res.Res.Status, res.Res.errString(), res.Res.Panic, core.HashString(stdoutForLog), core.HashString(core.SnapshotString(res.Files)), len(res.Got))
	return res
}

// c13ChildEvent records a child's message and (release=true) lets the child take its next step.
func c13ChildEvent(ev core.ChildEvent, res *c13Result, release bool) {
	m := ev.Msg
	switch {
	case strings.HasPrefix(m, "hello "):
		res.Started = append(res.Started, ev.Child.Name)
		if release {
			ev.Child.Go()
		}
	case strings.HasPrefix(m, "at "):
		if release {
			ev.Child.Go()
		}
	case strings.HasPrefix(m, "got "):
		s, _ := strconv.Unquote(m[4:])
		res.Got[ev.Child.Name] += s
	case m == "EOF":
		res.Exited[ev.Child.Name] = true
	}
}

// c13Schedule drives the children (and, for talkers, the deliveries of their output) until the
// interpreter's call has returned and every child is gone.
func c13Schedule(sc *c13Scn, srv *core.ChildServer, sink *core.SimSink, done chan execResult, res *c13Result, log *core.Log) {
	finished := false
	deadline := time.After(60 * time.Second)
	idle := time.NewTimer(time.Hour)
	defer idle.Stop()
	for {
		if finished {
			// wait for the children to disappear (they are reaped by the interpreter's Wait)
			alive := 0
			for _, k := range srv.Children() {
				if !k.Gone {
					alive++
				}
			}
			if alive == 0 {
				return
			}
			idle.Reset(5 * time.Second)
		}
		select {
		case r := <-done:
			res.Res = r
			finished = true
		case ev := <-srv.Events:
			c13ChildEvent(ev, res, true)
		case <-idle.C:
			if finished {
				for _, k := range srv.Children() {
					if !k.Gone {
						res.Alive = append(res.Alive, k.Name)
					}
				}
				srv.KillAll()
				return
			}
		case <-deadline:
			res.Deadlock = "the run did not finish within 60 s of real time"
			srv.KillAll()
			if !finished {
				res.Res = <-done
			}
			return
		}
	}
}

func (e c13Engine) Run(scAny any, keep bool) (out core.Outcome) {
	sc := scAny.(*c13Scn)
	if sc.CLI != nil {
		return c13RunCli(sc, keep)
	}
	src, ops := c13Source(sc)
	runOne := func(failAt int) (*core.Failure, *c13Result) {
		log := core.NewLog(keep)
		res := c13Exec(sc, src, ops, failAt, log)
		nontrivial := res.SinkFails > 0 || len(res.Started) > 0
		for _, en := range res.Trace {
			if ops[en.ID].Redir != "" {
				nontrivial = true
			}
		}
		out.One(log.Hash(), nontrivial)
		out.SimTime += int64(len(res.Trace))
		if keep {
			out.Log = append(out.Log, log.Lines...)
		}
		out.Probe("fault:stdout_write_failed", res.SinkFails)
		out.Probe("children_started", len(res.Started))
		if sc.DevFull != "" {
			out.Probe("fault:file_on_dev_full", 1)
		}
		if sc.FlushFail {
			out.Probe("fault:flush_only_failure", 1)
		}
		return c13Check(sc, src, ops, failAt, res, &out), res
	}
	if sc.Enum == "failat" {
		f, base := runOne(-1)
		if f != nil {
			out.Fail = f
			return out
		}
		total := len(base.Stdout)
		if total > 400 {
			total = 400 // big payloads: enumerate the first offsets, sample the rest
		}
		for k := 0; k <= total; k++ {
			if f, _ := runOne(k); f != nil {
				out.Fail = f
				c := *sc
				c.Enum, c.HasFail, c.FailAt = "", true, k
				out.Reduced = &c
				return out
			}
		}
		out.Probe("programs_with_every_failure_offset_enumerated", 1)
		return out
	}
	failAt := -1
	if sc.HasFail {
		failAt = sc.FailAt
	}
	out.Fail, _ = runOne(failAt)
	return out
}

func c13Check(sc *c13Scn, src string, ops map[int]*c13Op, failAt int, res *c13Result, out *core.Outcome) *core.Failure {
	desc := fmt.Sprintf("output=%s/%d out_mode=%q crlf=%v fail_at=%d flush_fail=%v devfull=%q emfile=%q pre=%v records=%d\nprogram:\n%s", sc.Output, sc.BufSize, sc.OutMode, sc.CRLF, failAt, sc.FlushFail, sc.DevFull, sc.EMFile, sc.Pre, sc.Records, src)
	fail := func(oracle, detail string) *core.Failure {
		return &core.Failure{Oracle: oracle, Detail: detail + "\n" + desc}
	}
	if res.Res.Panic != "" {
		return fail("panic", res.Res.Panic)
	}
	if res.Deadlock != "" {
		return fail("deadlock", res.Deadlock)
	}
	// os/exec gives the copier of a child's output 250 ms (Cmd.WaitDelay) after the child's exit;
	// on a starved machine that can expire. The interpreter then reports the loss (message on
	// the error stream, -1 from system()/close()): not silent, and not decidable here.
	if strings.Contains(res.Stderr, "WaitDelay expired") {
		out.Probe("inconclusive:exec_waitdelay_expired_under_load", 1)
		return nil
	}
	// model, driven by the observed trace
	runModel := func(lastComplete bool) *c13Model {
		m := &c13Model{sc: sc, files: map[string]string{}, open: map[string]string{}, spans: map[string]string{}, curInst: map[string]string{}, vals: map[int]float64{}, lines: map[int]string{},
			startedAfter: map[string]int{}, inst: map[string]int{}, openTrunc: map[string]bool{}, skipFile: map[string]bool{}}
		for k, v := range sc.Pre {
			m.files[k] = v
		}
		for i, e := range res.Trace {
			complete := true
			if i == len(res.Trace)-1 && res.Res.Err != nil {
				complete = lastComplete
			}
			m.apply(i, e, ops[e.ID], complete)
			if m.runErr {
				break
			}
		}
		return m
	}
	m := runModel(true)
	sinkFailed := res.SinkFails > 0 || (sc.FlushFail && res.FlushErrs > 0)
	// rule 6 / run-time errors: the run must end with an error exactly when the model says so
	if m.runErr && res.Res.Err == nil {
		last := res.Trace[len(res.Trace)-1]
		return fail("error-expected", fmt.Sprintf("operation %d (%s %s%s) must end the run with an error (division by zero, native failure, or reading a name open for output / writing a name open for input), but the run returned status %d and no error",
			last.ID, ops[last.ID].Kind, ops[last.ID].Dest, ops[last.ID].Name, res.Res.Status))
	}
	epipe := false // a command that exits without reading its input makes writes to it fail
	if res.Res.Err != nil && strings.Contains(res.Res.Err.Error(), "broken pipe") {
		for _, n := range res.Started {
			base := n
			if i := strings.Index(n, "#"); i >= 0 {
				base = n[:i]
			}
			if !strings.Contains(sc.Cmds[base], "slurp") {
				epipe = true
			}
		}
	}
	if !m.runErr && res.Res.Err != nil && !sinkFailed && sc.DevFull == "" && !epipe {
		return fail("unexpected-error", fmt.Sprintf("the run failed with %q although no operation of the model fails and no fault was injected", res.Res.Err))
	}
	// rule 5: a failing write to standard output makes the run fail
	if sinkFailed && res.Res.Err == nil && !(sc.Output == "bare" && res.WriteErrs == 0) {
		f := fail("stdout-failure-swallowed", fmt.Sprintf("standard output reported an error (%d failed writes, %d failed flushes) but the run returned status %d and no error", res.SinkFails, res.FlushErrs, res.Res.Status))
		if res.WriteErrs == 0 && core.IsOpen("F-C13-2") {
			f.Known = "F-C13-2" // no Write on Config.Output returned an error to the interpreter, only Flush calls
		}
		return f
	}
	if res.Res.Err == nil && !m.runErr && res.Res.Status != m.status {
		return fail("exit-status", fmt.Sprintf("exit status %d, expected %d", res.Res.Status, m.status))
	}
	epipeProne := false
	for _, n := range res.Started {
		base := n
		if i := strings.Index(n, "#"); i >= 0 {
			base = n[:i]
		}
		if (strings.HasPrefix(base, "K") || strings.HasPrefix(base, "T")) && !strings.Contains(sc.Cmds[base], "slurp") {
			epipeProne = true
		}
	}
	// return values of close / fflush / system / getline
	for i, e := range res.Trace {
		want, ok := m.vals[i]
		if !ok || want == -2 || !e.HasVal {
			continue
		}
		op := ops[e.ID]
		if sc.DevFull != "" && (op.Name == sc.DevFull) {
			continue
		}
		if (sinkFailed || sc.DevFull != "" || epipeProne) && (op.Kind == "fflushall" || op.Kind == "fflush") {
			continue // whether a flush to a command that never reads fails depends on when it exits
		}
		if sinkFailed && (op.Kind == "system" || (op.Kind == "close" && c13Emits(sc.Cmds[op.Name]) != "")) {
			continue // the child's output could not be delivered: status is -1 or a SIGPIPE death
		}
		if e.Val != want {
			return fail("return-value", fmt.Sprintf("operation %d (%s %s) returned %v, expected %v", e.ID, op.Kind, op.Name, e.Val, want))
		}
		if wl, ok := m.lines[i]; ok && e.Val == 1 && e.Line != wl {
			return fail("getline-data", fmt.Sprintf("operation %d (%s %s) read %q, expected %q", e.ID, op.Kind, op.Name, e.Line, wl))
		}
	}
	// rule 1: files
	m2 := m
	if res.Res.Err != nil {
		m2 = runModel(false)
	}
	for _, name := range []string{"A", "B", "C"} {
		if name == sc.DevFull || m.skipFile[name] {
			continue
		}
		got, gotOK := res.Files[name]
		w1, ok1 := m.files[name]
		w2, ok2 := m2.files[name]
		if (gotOK == ok1 && got == w1) || (gotOK == ok2 && got == w2) {
			continue
		}
		return fail("file-content", fmt.Sprintf("file %s holds %q (exists=%v), expected %q (exists=%v)", name, clip(got, 300), gotOK, clip(w1, 300), ok1))
	}
	for name := range res.Files {
		if name != "A" && name != "B" && name != "C" && !strings.HasPrefix(name, "!stray:ctl") {
			return fail("stray-file", fmt.Sprintf("unexpected file %q in the scratch directory", name))
		}
	}
	// rule 3: standard output
	racy := talkersStarted(res) && !sc.Sched && sc.Output != "bare" // F-C13-1 territory: free-running child + buffered writer
	classify := func(f *core.Failure) *core.Failure {
		if f != nil && racy && core.IsOpen("F-C13-1") {
			f.Known = "F-C13-1" // the unsynchronised writer shared with the child's copier may be corrupted
		}
		return f
	}
	wantOut := m.stdout.String()
	if failAt >= 0 && failAt < len(wantOut) {
		wantOut = wantOut[:failAt]
	}
	if sc.FlushFail {
		wantOut = "" // every Flush fails: nothing can reach the sink
	}
	talk := false
	for _, n := range res.Started {
		talk = talk || strings.HasPrefix(n, "T")
	}
	if !talk {
		if sinkFailed {
			// after a failure, later prints may have been accepted by a buffer and lost: the
			// delivered stream must be exactly the fault-free stream cut at the failure offset
			if res.Stdout != wantOut {
				return fail("stdout-content", fmt.Sprintf("standard output delivered %q, expected the fault-free stream cut at byte %d: %q", clip(res.Stdout, 300), failAt, clip(wantOut, 300)))
			}
		} else if res.Stdout != wantOut {
			return fail("stdout-content", fmt.Sprintf("standard output delivered %q, expected %q", clip(res.Stdout, 300), clip(wantOut, 300)))
		}
	} else if f := c13CheckTalkers(sc, m, res, failAt, fail); f != nil {
		return classify(f)
	}
	// 'e' tokens on standard error (mixed with the interpreter's own messages): in order, exactly once
	gotE := strings.Join(c13ErrTok.FindAllString(res.Stderr, -1), "")
	wantE := strings.Join(c13ErrTok.FindAllString(m.stderrE.String(), -1), "")
	if gotE != wantE {
		return fail("stderr-content", fmt.Sprintf("tokens printed to /dev/stderr arrived as %q, expected %q (stderr: %q)", gotE, wantE, clip(res.Stderr, 300)))
	}
	// rule 2: commands
	for inst, want := range m.spans {
		name := inst
		if i := strings.Index(inst, "#"); i >= 0 {
			name = inst[:i]
		}
		if !strings.Contains(sc.Cmds[name], "slurp") {
			continue // the command does not read its input
		}
		got, ok := res.Got[inst]
		if !ok && (failAt >= 0 || res.Res.Err != nil) && want == "" {
			continue
		}
		w2 := want
		if res.Res.Err != nil {
			if t, ok := m2.spans[inst]; ok {
				w2 = t
			}
		}
		if got != want && got != w2 {
			return fail("command-input", fmt.Sprintf("command instance %s received %q, expected %q", inst, clip(got, 300), clip(want, 300)))
		}
	}
	for _, n := range res.Alive {
		return fail("child-alive", fmt.Sprintf("child %s was still running 5 s after the run returned", n))
	}
	out.Probe("destinations_compared", 1)
	if res.Async {
		out.Probe("scheduled_runs_fallen_back_to_free_running", 1)
	}
	if sc.Sched && !res.Async {
		out.Probe("scheduled_runs", 1)
		out.Probe("scheduler_decisions", res.Sched)
	}
	// rule 4 (schedule-dependent, evaluated last so that it never hides another oracle): no
	// delivery of child output overlaps a Write of the program on the same Config.Output
	// rule 4b: a stream to a command is closed by flushing, closing its input and waiting for it,
	// one stream after the other: what two commands write after the end of their input can never
	// be inside Write at the same time (this overlap cannot happen on a tree where close() and
	// the end of the run wait for each command in turn, so it is not finding F-C13-1)
	if len(res.SchedCloseOverlaps) > 0 {
		return fail("concurrent-close", "two commands started by print | wrote to standard output at once after the end of their input: "+res.SchedCloseOverlaps[0])
	}
	for _, o := range res.SchedOverlaps {
		out.Probe("overlap:program_write_vs_child_delivery", 1)
		if strings.HasPrefix(o, "system:") {
			return fail("concurrent-write", "a child started by system() wrote to standard output concurrently with the program: "+o)
		}
	}
	if len(res.SchedOverlaps) > 0 {
		f := fail("concurrent-write", fmt.Sprintf("two goroutines were inside Config.Output.Write at once (an ordinary writer such as bufio.Writer is corrupted by that): %s", res.SchedOverlaps[0]))
		if core.IsOpen("F-C13-1") {
			f.Known = "F-C13-1" // the overlapping child was started by print | cmd (cmd.Stdout = p.output)
		}
		return f
	}
	return nil
}

func talkersStarted(res *c13Result) bool {
	for _, n := range res.Started {
		if strings.HasPrefix(n, "T") {
			return true
		}
	}
	return false
}

func c13UsesTalkers(sc *c13Scn) bool {
	var walk func(ops []c13Op) bool
	walk = func(ops []c13Op) bool {
		for _, op := range ops {
			if strings.HasPrefix(op.Dest, "T") || walk(op.Sub) {
				return true
			}
		}
		return false
	}
	return walk(sc.Begin) || walk(sc.Rule) || walk(sc.End)
}

var c13ErrTok = regexp.MustCompile(`e[a-j]+;_*`)

func isTokNum(s string) bool {
	if s == "" {
		return false
	}
	for _, c := range s {
		if c < 'a' || c > 'j' {
			return false
		}
	}
	return true
}

// c13CheckTalkers applies the schedule-independent stdout rules when children that write
// to the shared standard output ran concurrently with the program.
func c13CheckTalkers(sc *c13Scn, m *c13Model, res *c13Result, failAt int, fail func(string, string) *core.Failure) *core.Failure {
	// projections: letters (program, incl. synchronous system children digits are in m.stdout) vs talker digits
	talkDigits := map[byte]bool{}
	for _, n := range res.Started {
		if strings.HasPrefix(n, "T") {
			for _, c := range []byte(c13Emits(sc.Cmds[n[:2]])) {
				talkDigits[c] = true
			}
		}
	}
	var prog, talk []byte
	for i := 0; i < len(res.Stdout); i++ {
		c := res.Stdout[i]
		if talkDigits[c] {
			talk = append(talk, c)
		} else {
			prog = append(prog, c)
		}
	}
	want := m.stdout.String()
	if sc.FlushFail {
		if res.Stdout != "" {
			return fail("stdout-content", fmt.Sprintf("every Flush fails, yet standard output received %q", clip(res.Stdout, 200)))
		}
		return nil
	}
	if failAt >= 0 {
		if !strings.HasPrefix(want, string(prog)) {
			return fail("stdout-content", fmt.Sprintf("program bytes on standard output %q are not a prefix of the expected %q", clip(string(prog), 300), clip(want, 300)))
		}
		return nil
	}
	if string(prog) != want {
		return fail("stdout-content", fmt.Sprintf("program bytes on standard output are %q, expected %q (full stream %q)", clip(string(prog), 300), clip(want, 300), clip(res.Stdout, 300)))
	}
	// each talker's bytes, in order, exactly once
	for d := range talkDigits {
		wantD := ""
		for _, n := range res.Started {
			if strings.HasPrefix(n, "T") && res.Exited[n] {
				em := c13Emits(sc.Cmds[n[:2]])
				if len(em) > 0 && em[0] == d {
					wantD += em
				}
			}
		}
		var gotD []byte
		for _, c := range talk {
			if c == d {
				gotD = append(gotD, c)
			}
		}
		if string(gotD) != wantD {
			return fail("child-output-lost", fmt.Sprintf("children writing digit %q emitted %q in total, standard output holds %q (full stream %q)", string(d), wantD, string(gotD), clip(res.Stdout, 300)))
		}
	}
	return nil
}

// ---- shrinking ----

func c13ShrinkOps(ops []c13Op) [][]c13Op {
	var out [][]c13Op
	for i := range ops {
		c := append(append([]c13Op(nil), ops[:i]...), ops[i+1:]...)
		out = append(out, c)
	}
	for i, op := range ops {
		if len(op.Sub) > 0 {
			c := append(append(append([]c13Op(nil), ops[:i]...), op.Sub...), ops[i+1:]...)
			out = append(out, c)
			for _, s := range c13ShrinkOps(op.Sub) {
				c := append([]c13Op(nil), ops...)
				c[i].Sub = s
				out = append(out, c)
			}
		}
		if op.Big > 0 {
			c := append([]c13Op(nil), ops...)
			c[i].Big = 0
			out = append(out, c)
		}
	}
	return out
}

func (c13Engine) Shrink(scAny any) []any {
	sc := scAny.(*c13Scn)
	if sc.CLI != nil {
		return c13ShrinkCli(sc)
	}
	var out []any
	add := func(f func(c *c13Scn)) {
		c := *sc
		c.Tape = append([]int(nil), sc.Tape...)
		f(&c)
		out = append(out, &c)
	}
	if len(sc.Begin) > 0 && (len(sc.Rule) > 0 || len(sc.End) > 0) {
		add(func(c *c13Scn) { c.Begin = nil })
	}
	if len(sc.Rule) > 0 {
		add(func(c *c13Scn) { c.Rule, c.Records = nil, 0 })
	}
	if len(sc.End) > 0 {
		add(func(c *c13Scn) { c.End = nil })
	}
	for _, o := range c13ShrinkOps(sc.Begin) {
		o := o
		add(func(c *c13Scn) { c.Begin = o })
	}
	for _, o := range c13ShrinkOps(sc.Rule) {
		o := o
		if len(o) > 0 {
			add(func(c *c13Scn) { c.Rule = o })
		}
	}
	for _, o := range c13ShrinkOps(sc.End) {
		o := o
		add(func(c *c13Scn) { c.End = o })
	}
	if sc.Records > 1 {
		add(func(c *c13Scn) { c.Records-- })
	}
	if sc.OutMode != "" {
		add(func(c *c13Scn) { c.OutMode = "" })
	}
	if sc.CRLF {
		add(func(c *c13Scn) { c.CRLF = false })
	}
	if sc.Warm {
		add(func(c *c13Scn) { c.Warm = false })
	}
	if sc.WarmCtx {
		add(func(c *c13Scn) { c.WarmCtx = false })
	}
	if sc.WarmFailAt > 0 {
		add(func(c *c13Scn) { c.WarmFailAt = 0 })
	}
	if len(sc.Pre) > 0 {
		add(func(c *c13Scn) { c.Pre = nil })
	}
	if sc.Output != "bare" {
		add(func(c *c13Scn) { c.Output = "bare" })
	}
	if sc.DevFull != "" {
		add(func(c *c13Scn) { c.DevFull = "" })
	}
	if sc.EMFile != "" {
		add(func(c *c13Scn) { c.EMFile = "" })
	}
	if sc.HasFail {
		add(func(c *c13Scn) { c.HasFail = false })
		if sc.FailAt > 0 {
			add(func(c *c13Scn) { c.FailAt = 0 })
			add(func(c *c13Scn) { c.FailAt = sc.FailAt / 2 })
			add(func(c *c13Scn) { c.FailAt = sc.FailAt - 1 })
		}
	}
	for _, t := range shrinkInts(sc.Tape) {
		t := t
		add(func(c *c13Scn) { c.Tape = t })
	}
	return out
}
