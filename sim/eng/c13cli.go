package eng

import (
	"bytes"
	"fmt"
	"io"
	"os"
	"os/exec"
	"path/filepath"
	"sort"
	"strconv"
	"strings"
	"time"

	"github.com/benhoyt/goawk/verifharness/core"
)

// ---------------------------------------------------------------------------------------
// C13, CLI layer (DESIGN 5.5.6 ii): the real goawk binary, built from the scratch copy of the
// working tree, runs as a process in an empty directory with real /bin/sh children. goawk.go
// (the anchor the in-process layers never execute) decides here how standard output is
// buffered, what is flushed on which exit path and what the exit status is.
//
// Schedule control is coarse on purpose: every child is synchronous (system(), or a command
// that is closed before the program writes to standard output again), so the delivered bytes
// are a function of the scenario alone. The faults are the ones a shell user meets: standard
// output on /dev/full (unbuffered: the first print fails), on a pipe nobody reads any more
// (buffered: the flush fails), an exit or a run-time error with output pending.
// ---------------------------------------------------------------------------------------

type c13CliOp struct {
	// Kind: print | printf | close | system | fflush | exit | error | getline
	Kind string `json:"kind"`
	// Dest of print/printf: "" stdout, "/dev/stdout", "/dev/stderr", files A B, commands K1 K2
	Dest  string `json:"dest,omitempty"`
	Redir string `json:"redir,omitempty"`
	Tok   string `json:"tok,omitempty"`
	Big   int    `json:"big,omitempty"`
	N     int    `json:"n,omitempty"`
}

type c13Cli struct {
	Begin   []c13CliOp `json:"begin,omitempty"`
	Rule    []c13CliOp `json:"rule,omitempty"`
	End     []c13CliOp `json:"end,omitempty"`
	Records int        `json:"records,omitempty"`
	// Stdout: file | pipe | devfull | closedpipe
	Stdout   string            `json:"stdout"`
	ProgFile bool              `json:"prog_file,omitempty"`
	Pre      map[string]string `json:"pre,omitempty"`
}

// command texts run by the real /bin/sh; each appends what it reads to a file of its own
var c13CliCmds = map[string]string{
	"K1": "cat >> K1out; exit 3",
	"K2": "cat >> K2out",
}

func c13CliStatus(name string) int {
	if name == "K1" {
		return 3
	}
	return 0
}

func c13CliIsCmd(n string) bool { return n == "K1" || n == "K2" }

func c13GenCli(r *core.Rand) *c13Scn {
	cli := &c13Cli{}
	cli.Stdout = core.Pick(r, []string{"file", "file", "pipe", "pipe", "devfull", "closedpipe"})
	cli.ProgFile = r.Chance(1, 3)
	useCmds := r.Chance(1, 2)
	ntok := 0
	tok := func() string {
		ntok++
		s := ""
		for n := ntok; n > 0; n /= 10 {
			s = string(rune('a'+n%10)) + s
		}
		return s
	}
	open := map[string]bool{} // commands open so far (programs with commands are straight-line: BEGIN, then END)
	gen := func(n int, cmds bool) []c13CliOp {
		var ops []c13CliOp
		for len(ops) < n {
			var op c13CliOp
			switch k := r.Intn(20); {
			case k < 6:
				op = c13CliOp{Kind: core.Pick(r, []string{"print", "printf"}), Tok: tok()}
				if r.Chance(1, 10) {
					op.Dest, op.Redir = "/dev/stdout", ">"
				}
				if r.Chance(1, 12) {
					op.Big = core.Pick(r, []int{5000, 70000})
				}
			case k < 10:
				op = c13CliOp{Kind: core.Pick(r, []string{"print", "printf"}), Tok: tok(), Dest: core.Pick(r, []string{"A", "B"}), Redir: core.Pick(r, []string{">", ">>"})}
				if r.Chance(1, 12) {
					op.Big = 70000
				}
			case k < 11:
				op = c13CliOp{Kind: "print", Tok: tok(), Dest: "/dev/stderr", Redir: ">"}
			case k < 13 && cmds:
				op = c13CliOp{Kind: "print", Tok: tok(), Dest: core.Pick(r, []string{"K1", "K2"}), Redir: "|"}
			case k < 15:
				op = c13CliOp{Kind: "close", Dest: core.Pick(r, []string{"A", "B", "K1", "K2"})}
			case k < 17:
				op = c13CliOp{Kind: "system", Tok: strconv.Itoa(r.Range(1, 9) * 111), N: r.Intn(3)}
			case k < 18:
				op = c13CliOp{Kind: "fflush"}
			case k < 19:
				op = c13CliOp{Kind: "getline", Dest: core.Pick(r, []string{"A", "B"})}
			default:
				continue
			}
			// The program never writes to a buffered standard output while a command stream is
			// open: os/exec's copier goroutine for that command holds the same bufio.Writer
			// (open finding F-C13-1) and this layer has no scheduler to make that deterministic.
			if op.Redir == "|" {
				open[op.Dest] = true
			}
			if op.Kind == "close" {
				delete(open, op.Dest)
			}
			writesStdout := (op.Kind == "print" || op.Kind == "printf") && (op.Dest == "" || op.Dest == "/dev/stdout")
			if (writesStdout || op.Kind == "system" || op.Kind == "close") && len(open) > 0 {
				names := make([]string, 0, len(open))
				for n := range open {
					names = append(names, n)
				}
				sort.Strings(names)
				for _, n := range names {
					if !(op.Kind == "close" && op.Dest == n) {
						ops = append(ops, c13CliOp{Kind: "close", Dest: n})
					}
					delete(open, n)
				}
			}
			ops = append(ops, op)
		}
		return ops
	}
	cli.Begin = gen(r.Range(1, 7), useCmds)
	if !useCmds && r.Chance(1, 2) {
		cli.Rule = gen(r.Range(1, 4), false)
		cli.Records = r.Range(1, 3)
	}
	if r.Chance(1, 2) {
		cli.End = gen(r.Range(1, 5), false)
		if cli.Records == 0 {
			cli.Records = r.Range(0, 2)
		}
	}
	// how the program ends
	end := c13CliOp{}
	switch r.Intn(6) {
	case 0:
		end = c13CliOp{Kind: "exit", N: core.Pick(r, []int{0, 1, 3, 7})}
	case 1:
		end = c13CliOp{Kind: "error"}
	}
	if end.Kind != "" {
		switch {
		case len(cli.End) > 0 && r.Bool():
			cli.End = append(cli.End, end)
		case len(cli.Rule) > 0 && r.Bool():
			cli.Rule = append(cli.Rule, end)
		default:
			cli.Begin = append(cli.Begin, end)
		}
	}
	if r.Chance(1, 3) {
		cli.Pre = map[string]string{}
		for _, f := range []string{"A", "B"} {
			if r.Bool() {
				cli.Pre[f] = "old" + f + "\n"
			}
		}
	}
	return &c13Scn{CLI: cli, Output: "cli"}
}

func c13CliPayload(op *c13CliOp) string {
	if op.Big > len(op.Tok) {
		return op.Tok + strings.Repeat("_", op.Big-len(op.Tok)) + ";"
	}
	return op.Tok + ";"
}

func c13CliSource(cli *c13Cli) string {
	var b strings.Builder
	block := func(ops []c13CliOp) {
		for i := range ops {
			op := &ops[i]
			target := ""
			if op.Redir != "" {
				name := op.Dest
				if c13CliIsCmd(name) {
					name = c13CliCmds[name]
				}
				target = fmt.Sprintf(" %s %q", op.Redir, name)
			}
			switch op.Kind {
			case "print":
				if op.Big > 0 {
					fmt.Fprintf(&b, "  print %q pad(%d) \";\"%s\n", op.Tok, op.Big-len(op.Tok), target)
				} else {
					fmt.Fprintf(&b, "  print %q%s\n", c13CliPayload(op), target)
				}
			case "printf":
				if op.Big > 0 {
					fmt.Fprintf(&b, "  printf \"%%s%%s;\", %q, pad(%d)%s\n", op.Tok, op.Big-len(op.Tok), target)
				} else {
					fmt.Fprintf(&b, "  printf \"%%s\", %q%s\n", c13CliPayload(op), target)
				}
			case "close":
				name := op.Dest
				if c13CliIsCmd(name) {
					name = c13CliCmds[name]
				}
				fmt.Fprintf(&b, "  print \"c\" close(%q) \";\" > \"R\"\n", name)
			case "system":
				fmt.Fprintf(&b, "  print \"s\" system(\"echo %s; exit %d\") \";\" > \"R\"\n", op.Tok, op.N)
			case "fflush":
				fmt.Fprintf(&b, "  fflush()\n")
			case "getline":
				fmt.Fprintf(&b, "  g = (getline line < %q); print \"g\" g \";\" > \"R\"\n", op.Dest)
			case "exit":
				fmt.Fprintf(&b, "  exit %d\n", op.N)
			case "error":
				fmt.Fprintf(&b, "  zero = 0; x = 1 / zero\n")
			}
		}
	}
	b.WriteString("function pad(n,   s) { s = sprintf(\"%\" n \"s\", \"\"); gsub(/ /, \"_\", s); return s }\n")
	if len(cli.Begin) > 0 {
		b.WriteString("BEGIN {\n")
		block(cli.Begin)
		b.WriteString("}\n")
	}
	if len(cli.Rule) > 0 {
		b.WriteString("{\n")
		block(cli.Rule)
		b.WriteString("}\n")
	}
	if len(cli.End) > 0 {
		b.WriteString("END {\n")
		block(cli.End)
		b.WriteString("}\n")
	}
	return b.String()
}

// c13CliModel is the reference: what each destination must hold when the process has exited.
type c13CliModel struct {
	stdout, stderr strings.Builder
	files          map[string]string // A, B, K1out, K2out, R
	exists         map[string]bool
	open           map[string]string // name -> "file" | "cmd" | "infile"
	pending        map[string]string // command name -> bytes printed since it was opened
	status         int
	failed         bool // run-time error: status 1, a message on stderr
	ended          bool
	// progStdout counts the bytes the program itself wrote to standard output;
	// atFirstStdout is the state of the files just before the first such write
	progStdout    int
	atFirstStdout map[string]string
	inLines       map[string]int // lines left in a file open for reading
	skip          string
}

// hazard: the program (or a system() child) writes to standard output while a command started
// by print | cmd is open - open finding F-C13-1 makes the outcome a matter of timing, which this
// layer does not control. The generator never produces it; a shrunk scenario might.
func (m *c13CliModel) hazard() {
	for _, k := range m.open {
		if k == "cmd" {
			m.skip = "standard output written while a print|cmd stream is open (F-C13-1, not scheduled in this layer)"
		}
	}
}

func (m *c13CliModel) r(s string) {
	if _, ok := m.open["R"]; !ok {
		m.open["R"] = "file"
		m.files["R"] = ""
		m.exists["R"] = true
	}
	m.files["R"] += s + "\n"
}

func (m *c13CliModel) closeCmd(name string) {
	m.files[name+"out"] += m.pending[name]
	m.exists[name+"out"] = true
	delete(m.pending, name)
	delete(m.open, name)
}

func (m *c13CliModel) snapshot() map[string]string {
	s := map[string]string{}
	for k, v := range m.files {
		if m.exists[k] {
			s[k] = v
		}
	}
	// what was printed to a command that is still open reaches its file when the run ends
	for k, v := range m.pending {
		s[k+"out"] += v
	}
	return s
}

func (m *c13CliModel) block(ops []c13CliOp) {
	for i := range ops {
		if m.ended {
			return
		}
		op := &ops[i]
		switch op.Kind {
		case "print", "printf":
			p := c13CliPayload(op)
			if op.Kind == "print" {
				p += "\n"
			}
			switch {
			case op.Dest == "" || op.Dest == "/dev/stdout":
				m.hazard()
				if m.progStdout == 0 {
					m.atFirstStdout = m.snapshot()
				}
				m.progStdout += len(p)
				m.stdout.WriteString(p)
			case op.Dest == "/dev/stderr":
				m.stderr.WriteString(p)
			case c13CliIsCmd(op.Dest):
				if _, ok := m.open[op.Dest]; !ok {
					m.open[op.Dest] = "cmd"
					m.pending[op.Dest] = ""
				}
				m.pending[op.Dest] += p
			default:
				switch m.open[op.Dest] {
				case "infile":
					// writing a name that is open for reading ends the run with an error
					m.failed, m.ended = true, true
					return
				case "":
					m.open[op.Dest] = "file"
					if op.Redir == ">" || !m.exists[op.Dest] {
						m.files[op.Dest] = ""
					}
					m.exists[op.Dest] = true
				}
				m.files[op.Dest] += p
			}
		case "close":
			switch m.open[op.Dest] {
			case "file", "infile":
				delete(m.open, op.Dest)
				m.r("c0;")
			case "cmd":
				m.closeCmd(op.Dest)
				m.r(fmt.Sprintf("c%d;", c13CliStatus(op.Dest)))
			default:
				m.r("c-1;")
			}
		case "system":
			m.hazard()
			m.stdout.WriteString(op.Tok + "\n")
			m.r(fmt.Sprintf("s%d;", op.N))
		case "fflush":
		case "getline":
			switch m.open[op.Dest] {
			case "file":
				m.failed, m.ended = true, true
				return
			case "infile":
				if m.inLines[op.Dest] > 0 {
					m.inLines[op.Dest]--
					m.r("g1;")
				} else {
					m.r("g0;")
				}
			default:
				if !m.exists[op.Dest] {
					m.r("g-1;")
				} else {
					// the file is not open for writing, so everything printed to it is on disk
					c := m.files[op.Dest]
					if len(c) > 60000 {
						m.skip = "getline of a very long line"
					}
					n := strings.Count(c, "\n")
					if c != "" && !strings.HasSuffix(c, "\n") {
						n++
					}
					m.open[op.Dest] = "infile"
					m.inLines[op.Dest] = n
					if n > 0 {
						m.inLines[op.Dest]--
						m.r("g1;")
					} else {
						m.r("g0;")
					}
				}
			}
		case "exit":
			m.status = op.N
			m.ended = true
		case "error":
			m.failed, m.ended = true, true
		}
	}
}

func c13CliRunModel(cli *c13Cli) *c13CliModel {
	m := &c13CliModel{files: map[string]string{}, exists: map[string]bool{}, open: map[string]string{}, pending: map[string]string{}, inLines: map[string]int{}}
	for k, v := range cli.Pre {
		m.files[k] = v
		m.exists[k] = true
	}
	m.block(cli.Begin)
	if !m.ended && (len(cli.Rule) > 0 || len(cli.End) > 0) {
		for i := 0; i < cli.Records && !m.ended; i++ {
			m.block(cli.Rule)
		}
	}
	if !m.failed {
		// END runs after exit in BEGIN or a rule (not after an error)
		m.ended = false
		m.block(cli.End)
	}
	if m.failed {
		m.status = 1
	}
	return m
}

type c13CliResult struct {
	Stdout, Stderr string
	Files          map[string]string
	Status         int
	Signal         string
	Hang           bool
}

func c13CliExec(cli *c13Cli, src string) *c13CliResult {
	goawk := os.Getenv("VERIF_GOAWK")
	if goawk == "" {
		core.Fatal("C13 CLI layer: VERIF_GOAWK is not set (the wrapper ./check builds the goawk binary)")
	}
	dir, err := os.MkdirTemp(scratchBase(), "cli")
	if err != nil {
		core.Fatal("C13 CLI layer: %v", err)
	}
	defer os.RemoveAll(dir)
	cwd := filepath.Join(dir, "cwd")
	_ = os.Mkdir(cwd, 0o755)
	for k, v := range cli.Pre {
		_ = os.WriteFile(filepath.Join(cwd, k), []byte(v), 0o644)
	}
	var args []string
	if cli.ProgFile {
		pf := filepath.Join(dir, "prog.awk")
		_ = os.WriteFile(pf, []byte(src), 0o644)
		args = []string{"-f", pf}
	} else {
		args = []string{src}
	}
	var in strings.Builder
	for i := 1; i <= cli.Records; i++ {
		fmt.Fprintf(&in, "r%d\n", i)
	}
	inPath := filepath.Join(dir, "stdin")
	_ = os.WriteFile(inPath, []byte(in.String()), 0o644)
	stdin, err := os.Open(inPath)
	if err != nil {
		core.Fatal("C13 CLI layer: %v", err)
	}
	defer stdin.Close()
	cmd := exec.Command(goawk, args...)
	cmd.Dir = cwd
	cmd.Env = []string{"PATH=/usr/local/bin:/usr/bin:/bin", "LC_ALL=C"}
	cmd.Stdin = stdin
	var errBuf bytes.Buffer
	cmd.Stderr = &errBuf
	res := &c13CliResult{Files: map[string]string{}}
	var outFile *os.File
	var pr *os.File
	outDone := make(chan string, 1)
	switch cli.Stdout {
	case "file":
		outFile, err = os.Create(filepath.Join(dir, "stdout"))
		if err != nil {
			core.Fatal("C13 CLI layer: %v", err)
		}
		cmd.Stdout = outFile
	case "pipe", "closedpipe":
		var pw *os.File
		pr, pw, err = os.Pipe()
		if err != nil {
			core.Fatal("C13 CLI layer: %v", err)
		}
		cmd.Stdout = pw
		if cli.Stdout == "closedpipe" {
			pr.Close()
			pr = nil
		}
		defer pw.Close()
	case "devfull":
		outFile, err = os.OpenFile("/dev/full", os.O_WRONLY, 0)
		if err != nil {
			core.Fatal("C13 CLI layer: %v", err)
		}
		cmd.Stdout = outFile
	}
	if err := cmd.Start(); err != nil {
		core.Fatal("C13 CLI layer: cannot start %s: %v", goawk, err)
	}
	if pw, ok := cmd.Stdout.(*os.File); ok && (cli.Stdout == "pipe" || cli.Stdout == "closedpipe") {
		pw.Close() // our copy of the write end
	}
	if pr != nil {
		go func() {
			b, _ := io.ReadAll(pr)
			pr.Close()
			outDone <- string(b)
		}()
	}
	waitDone := make(chan error, 1)
	go func() { waitDone <- cmd.Wait() }()
	select {
	case <-waitDone:
	case <-time.After(30 * time.Second):
		_ = cmd.Process.Kill()
		<-waitDone
		res.Hang = true
	}
	if outFile != nil {
		outFile.Close()
	}
	switch cli.Stdout {
	case "file":
		b, _ := os.ReadFile(filepath.Join(dir, "stdout"))
		res.Stdout = string(b)
	case "pipe":
		select {
		case res.Stdout = <-outDone:
		case <-time.After(10 * time.Second):
			// a grandchild still holds the pipe: nothing in this layer starts one
			res.Hang = true
		}
	}
	res.Stderr = errBuf.String()
	res.Status = cmd.ProcessState.ExitCode()
	if !cmd.ProcessState.Exited() {
		res.Signal = cmd.ProcessState.String()
	}
	ents, _ := os.ReadDir(cwd)
	for _, e := range ents {
		b, _ := os.ReadFile(filepath.Join(cwd, e.Name()))
		res.Files[e.Name()] = string(b)
	}
	return res
}

func c13CliFiles(m map[string]string) string {
	keys := make([]string, 0, len(m))
	for k := range m {
		keys = append(keys, k)
	}
	sort.Strings(keys)
	var b strings.Builder
	for _, k := range keys {
		fmt.Fprintf(&b, "%s=%s;", k, c13Short(m[k]))
	}
	return b.String()
}

func c13Short(s string) string {
	if len(s) > 120 {
		return fmt.Sprintf("%q...(%d bytes, hash %x)", s[:60], len(s), core.HashString(s))
	}
	return strconv.Quote(s)
}

func c13RunCli(sc *c13Scn, keep bool) (out core.Outcome) {
	cli := sc.CLI
	src := c13CliSource(cli)
	m := c13CliRunModel(cli)
	log := core.NewLog(keep)
	log.Addf("cli stdout=%s progfile=%v records=%d\n%s", cli.Stdout, cli.ProgFile, cli.Records, src)
	if m.skip != "" {
		out.Probe("cli_skipped:"+m.skip, 1)
		out.One(log.Hash(), false)
		return out
	}
	res := c13CliExec(cli, src)
	if cli.Stdout == "devfull" || cli.Stdout == "closedpipe" {
		// whether the process is ended by the failed write itself or by a SIGPIPE is the kernel's
		// business: the event log records only what the oracles look at
		log.Addf("failing stdout: succeeded=%v", res.Status == 0 && res.Signal == "")
	} else {
		log.Addf("status=%d signal=%q stdout=%s stderr_tokens=%s files=%s", res.Status, res.Signal, c13Short(res.Stdout), c13Short(c13CliTokens(res.Stderr)), c13CliFiles(res.Files))
	}
	out.One(log.Hash(), true)
	out.Probe("cli_runs", 1)
	out.Probe("cli_stdout:"+cli.Stdout, 1)
	if keep {
		out.Log = append(out.Log, log.Lines...)
	}
	desc := fmt.Sprintf("goawk binary, stdout=%s prog_file=%v records=%d pre=%v\nprogram:\n%s", cli.Stdout, cli.ProgFile, cli.Records, cli.Pre, src)
	fail := func(oracle, detail string) core.Outcome {
		out.Fail = &core.Failure{Oracle: "cli-" + oracle, Detail: detail + "\n" + desc}
		return out
	}
	if res.Hang {
		return fail("hang", "the goawk process (all of whose children end by themselves) had not exited after 30 s")
	}
	if strings.Contains(res.Stderr, "panic:") || strings.Contains(res.Stderr, "goroutine ") {
		return fail("panic", "the goawk process crashed: "+c13Short(res.Stderr))
	}
	wantFiles := m.snapshot()
	stdoutFails := (cli.Stdout == "devfull" || cli.Stdout == "closedpipe") && m.progStdout > 0
	if stdoutFails {
		out.Probe("fault:cli_stdout_failed", 1)
		// rule 5: the run must not succeed; with an unbuffered standard output (/dev/full is a
		// character device) the failing statement is the first print, and files hold what had
		// been printed to them before it
		if res.Status == 0 && res.Signal == "" {
			return fail("stdout-failure-swallowed", fmt.Sprintf("standard output (%s) cannot take the %d bytes the program printed, yet goawk exited with status 0", cli.Stdout, m.progStdout))
		}
		if cli.Stdout == "devfull" {
			if got, want := c13CliFiles(res.Files), c13CliFiles(m.atFirstStdout); got != want {
				return fail("file-content", fmt.Sprintf("files after the failing print: %s, expected %s", got, want))
			}
		}
		return out
	}
	if cli.Stdout == "devfull" || cli.Stdout == "closedpipe" {
		if m.stdout.Len() > 0 {
			// only system() children wrote: whether their failure (or a SIGPIPE at the flush of
			// the copied bytes) ends the run is not the program's write failing
			return out
		}
	} else if res.Stdout != m.stdout.String() {
		return fail("stdout-content", fmt.Sprintf("standard output %s, expected %s", c13Short(res.Stdout), c13Short(m.stdout.String())))
	}
	if got, want := c13CliFiles(res.Files), c13CliFiles(wantFiles); got != want {
		return fail("file-content", fmt.Sprintf("files %s, expected %s", got, want))
	}
	if res.Signal != "" {
		return fail("exit-status", "goawk was killed: "+res.Signal)
	}
	if res.Status != m.status {
		return fail("exit-status", fmt.Sprintf("exit status %d, expected %d", res.Status, m.status))
	}
	if got, want := c13CliTokens(res.Stderr), m.stderr.String(); !m.failed && got != want {
		return fail("stderr-content", fmt.Sprintf("standard error %s, expected %s", c13Short(got), c13Short(want)))
	}
	if m.failed && !strings.HasPrefix(c13CliTokens(res.Stderr), m.stderr.String()) {
		return fail("stderr-content", fmt.Sprintf("standard error %s does not start with the program's %s", c13Short(res.Stderr), c13Short(m.stderr.String())))
	}
	if m.failed && len(res.Stderr) <= len(m.stderr.String()) {
		return fail("error-expected", "a run-time error must be reported on standard error")
	}
	return out
}

// c13CliTokens keeps the program's own lines of standard error (tokens end in ';'); the
// interpreter's messages are not compared.
func c13CliTokens(s string) string {
	var b strings.Builder
	for _, l := range strings.SplitAfter(s, "\n") {
		t := strings.TrimRight(l, "\n")
		if strings.HasSuffix(t, ";") && !strings.Contains(t, " ") {
			b.WriteString(l)
		}
	}
	return b.String()
}

func c13ShrinkCli(sc *c13Scn) []any {
	var out []any
	cli := sc.CLI
	add := func(f func(c *c13Cli)) {
		c := *cli
		f(&c)
		out = append(out, &c13Scn{CLI: &c, Output: "cli"})
	}
	drop := func(ops []c13CliOp) [][]c13CliOp {
		var r [][]c13CliOp
		if len(ops) > 1 {
			r = append(r, ops[:len(ops)/2], ops[len(ops)/2:])
		}
		for i := range ops {
			o := append(append([]c13CliOp(nil), ops[:i]...), ops[i+1:]...)
			r = append(r, o)
		}
		return r
	}
	if len(cli.End) > 0 {
		add(func(c *c13Cli) { c.End = nil })
	}
	if len(cli.Rule) > 0 {
		add(func(c *c13Cli) { c.Rule = nil })
	}
	for _, o := range drop(cli.Begin) {
		o := o
		add(func(c *c13Cli) { c.Begin = o })
	}
	for _, o := range drop(cli.Rule) {
		o := o
		add(func(c *c13Cli) { c.Rule = o })
	}
	for _, o := range drop(cli.End) {
		o := o
		add(func(c *c13Cli) { c.End = o })
	}
	if cli.Records > 0 {
		add(func(c *c13Cli) { c.Records-- })
	}
	if cli.ProgFile {
		add(func(c *c13Cli) { c.ProgFile = false })
	}
	if len(cli.Pre) > 0 {
		add(func(c *c13Cli) { c.Pre = nil })
	}
	if cli.Stdout != "file" {
		add(func(c *c13Cli) { c.Stdout = "file" })
	}
	shrinkBig := func(ops []c13CliOp) []c13CliOp {
		o := append([]c13CliOp(nil), ops...)
		for i := range o {
			o[i].Big = 0
		}
		return o
	}
	add(func(c *c13Cli) { c.Begin, c.Rule, c.End = shrinkBig(c.Begin), shrinkBig(c.Rule), shrinkBig(c.End) })
	return out
}
