package eng

import (
	"fmt"
	"os"
	"path/filepath"
	"sort"
	"strings"

	"github.com/benhoyt/goawk/interp"
	"github.com/benhoyt/goawk/parser"
	"github.com/benhoyt/goawk/verifharness/core"
)

// ---------------------------------------------------------------------------------------
// C12 — NoExec / NoFileWrites / NoFileReads confine every program.
// ---------------------------------------------------------------------------------------

type c12Attempt struct {
	// Kind: write | append | printf | pipe-out | pipe-in | pipe-in-var | read | read-var | system | close | fflush
	Kind   string `json:"kind"`
	Target string `json:"target"` // virtual file name, special name, or command name
	// Via: lit | concat | sprintf | substr | array | var | environ | input
	Via string `json:"via"`
	// Where: begin | rule | end | func
	Where string `json:"where"`
	Guard int    `json:"guard,omitempty"` // 1-based index of an earlier attempt whose result must be >= 0
}

type c12Scn struct {
	NoExec       bool         `json:"noexec"`
	NoFileWrites bool         `json:"nofilewrites"`
	NoFileReads  bool         `json:"nofilereads"`
	CustomOpen   bool         `json:"custom_open"`
	Attempts     []c12Attempt `json:"attempts"`
	Args         []string     `json:"args,omitempty"`
	// ArgvRuntime: the operands are not given in Config.Args but assigned to ARGV in BEGIN
	ArgvRuntime bool `json:"argv_runtime,omitempty"`
	// ViaContext: run through interp.New + ExecuteContext with a context that is never cancelled
	ViaContext bool `json:"via_context,omitempty"`
	// Warm: the Interpreter is reused: the same program first runs once with every flag off and
	// another OpenFile function, in a world of its own; then the measured run
	Warm bool `json:"warm,omitempty"`
	// WarmSame: the warm-up run gets the very same *Config value (its fields are changed between
	// the two runs, as a caller that keeps one Config around would do); WarmNoReset: no ResetVars
	// between the runs
	WarmSame    bool       `json:"warm_same,omitempty"`
	WarmNoReset bool       `json:"warm_no_reset,omitempty"`
	Stdin       core.Bytes `json:"stdin"`
	// Faults: virtual name -> fault of the OpenFile seam (custom open only)
	Faults map[string]string `json:"faults,omitempty"`
}

type c12State struct {
	marks []int
	dones map[int]float64
	seen  []string
	vals  map[int]string
}

var c12cur *c12State

var c12funcs = map[string]any{
	"mark": func(k int) { c12cur.marks = append(c12cur.marks, k) },
	"done": func(k int, r float64) { c12cur.dones[k] = r },
	"val":  func(k int, v string) { c12cur.vals[k] = v },
	"seen": func(fn, rec string) { c12cur.seen = append(c12cur.seen, fn+":"+rec) },
}

type c12Engine struct{}

func init() { core.Register(c12Engine{}) }

func (c12Engine) ID() string               { return "C12" }
func (c12Engine) Level(tier string) string { return "exploration" }
func (c12Engine) Rule() string {
	return "scenario = (the three sandbox flags, custom OpenFile present/absent, OpenFile fault plan, operands, stdin, a program generated from up to 10 I/O attempts: print/printf with > and >>, print | cmd, cmd | getline [var], getline [var] < file, system, close and re-open, fflush; names computed at run time by concatenation, sprintf, substr, array element, -v variable, ENVIRON or a value read from stdin; special names '-', /dev/stdout, /dev/stderr; attempts placed in BEGIN, rules, END and functions, optionally guarded by an earlier result). The simulated world logs every OpenFile call, every started process (the stub child records its start) and snapshots the scratch directory and the empty working directory before/after. One evaluation = one execution. Distinct = distinct event-log hash; non-trivial = at least one flag is set and an attempt forbidden by it was started, or no flag is set and an attempt succeeded in touching the world."
}
func (c12Engine) Assumptions() []string {
	return []string{
		"writing to '-', /dev/stdout or /dev/stderr is not a file attempt: both outcomes are accepted under NoFileWrites, no effect on the directory is required",
		"a process start is observed through the stub child (Config.ShellCommand) appending to a start log; a program cannot start processes other than through the configured shell",
	}
}
func (c12Engine) Components() map[string]string {
	return map[string]string{
		"interp I/O paths (getOutputStream, getInputScanner*, nextLine, system, close, fflush)": "real",
		"files": "real files in a per-run scratch directory; with custom OpenFile reached through SimFS (logged, fault plan)", "processes": "real processes running stub simsh",
		"stdin/stdout": "stub",
	}
}
func (c12Engine) Count(tier string) int {
	if tier == "thorough" {
		return 120000
	}
	return 3500
}
func (c12Engine) BudgetS(tier string) int {
	if tier == "thorough" {
		return 900
	}
	return 50
}
func (c12Engine) Workers(tier string) int { return 0 }
func (c12Engine) NewScenario() any        { return &c12Scn{} }

var c12Kinds = []string{"exit", "write", "append", "printf", "pipe-out", "pipe-in", "pipe-in-var", "read", "read-var", "system", "close", "fflush", "write", "read"}

func (c12Engine) Gen(r *core.Rand, tier string, i int) any {
	sc := &c12Scn{}
	switch r.Intn(10) {
	case 0, 1: // all flags off: the world must really be touched
	default:
		sc.NoExec, sc.NoFileWrites, sc.NoFileReads = r.Bool(), r.Bool(), r.Bool()
	}
	sc.CustomOpen = r.Chance(2, 3)
	files := []string{"out1", "out2", "in1", "in2", "missing", "-", "/dev/stdout", "/dev/stderr"}
	n := r.Range(1, 8)
	if r.Chance(1, 8) {
		n = r.Range(8, 10)
	}
	inputUsed := false
	for k := 0; k < n; k++ {
		a := c12Attempt{Kind: core.Pick(r, c12Kinds)}
		switch a.Kind {
		case "write", "append", "printf":
			a.Target = core.Pick(r, []string{"out1", "out2", "out1", "in1", "-", "/dev/stdout", "/dev/stderr", "sub/out3", "/dev/fd/1", "/dev/fd/2", "./-", "sub/../-"})
		case "read", "read-var":
			a.Target = core.Pick(r, []string{"in1", "in2", "in1", "missing", "-", "out1", "empty", "./-", "sub/../-"})
		case "close":
			a.Target = core.Pick(r, append(files, "cw", "cr"))
		case "pipe-out":
			a.Target = "cw"
		case "pipe-in", "pipe-in-var":
			a.Target = core.Pick(r, []string{"cr", "cr", "cr", "dash"})
		case "system":
			a.Target = core.Pick(r, []string{"cs", "cs", "cs", "blank"})
		}
		a.Via = core.Pick(r, []string{"lit", "lit", "concat", "sprintf", "substr", "array", "var", "environ"})
		if !inputUsed && r.Chance(1, 10) && a.Target != "" && len(a.Target) > 2 && a.Target != "missing" {
			a.Via = "input"
			inputUsed = true
		}
		a.Where = core.Pick(r, []string{"begin", "begin", "rule", "end", "func"})
		if k > 0 && r.Chance(1, 5) {
			a.Guard = r.Range(1, k)
		}
		sc.Attempts = append(sc.Attempts, a)
	}
	if r.Chance(1, 2) {
		ops := []string{"in1", "in2", "-", "", "v=1", "missing", "adir"}
		for m := r.Range(1, 3); m > 0; m-- {
			sc.Args = append(sc.Args, core.Pick(r, ops))
		}
	}
	sc.ArgvRuntime = len(sc.Args) > 0 && r.Chance(1, 3)
	sc.ViaContext = r.Chance(1, 4)
	sc.Warm = r.Chance(1, 5)
	if sc.Warm {
		sc.WarmSame, sc.WarmNoReset = r.Chance(1, 3), r.Chance(1, 3)
	}
	sc.Stdin = core.Bytes("s1\ns2\ns3\n")
	if sc.CustomOpen && r.Chance(1, 6) {
		sc.Faults = map[string]string{core.Pick(r, []string{"out1", "in1", "out2", "sub/out3"}): core.Pick(r, []string{"enoent", "eacces", "devfull", "readonly", "emfile", "emfile"})}
	}
	if _, ok := sc.Faults["sub/out3"]; ok {
		// the open of a file below a directory that does not exist fails: make sure it is tried
		sc.Attempts = append(sc.Attempts, c12Attempt{Kind: core.Pick(r, []string{"write", "append"}), Target: "sub/out3", Via: "lit", Where: "begin"})
	}
	return sc
}

func awkStr(s string) string {
	var sb strings.Builder
	sb.WriteByte('"')
	for _, c := range []byte(s) {
		switch c {
		case '"':
			sb.WriteString(`\"`)
		case '\\':
			sb.WriteString(`\\`)
		case '\n':
			sb.WriteString(`\n`)
		default:
			sb.WriteByte(c)
		}
	}
	sb.WriteByte('"')
	return sb.String()
}

// c12Build generates the program text and the run-time name bindings.
func c12Build(sc *c12Scn, nameOf func(target string) string, args []string) (src string, vars, environ []string, firstLine string) {
	var begin, rule, end, funcs, pre []string
	if sc.ArgvRuntime {
		for _, a := range args {
			pre = append(pre, fmt.Sprintf("ARGV[ARGC++] = %s", awkStr(a)))
		}
	}
	for i, a := range sc.Attempts {
		k := i + 1
		name := nameOf(a.Target)
		var expr string
		half := len(name) / 2
		switch a.Via {
		case "concat":
			expr = "(" + awkStr(name[:half]) + " " + awkStr(name[half:]) + ")"
		case "sprintf":
			expr = "sprintf(\"%s%s\", " + awkStr(name[:half]) + ", " + awkStr(name[half:]) + ")"
		case "substr":
			expr = "substr(" + awkStr("zz"+name) + ", 3)"
		case "array":
			pre = append(pre, fmt.Sprintf("nm[%d] = %s", k, awkStr(name)))
			expr = fmt.Sprintf("nm[%d]", k)
		case "var":
			vars = append(vars, fmt.Sprintf("t%d", k), name)
			expr = fmt.Sprintf("t%d", k)
		case "environ":
			environ = append(environ, fmt.Sprintf("T%d", k), name)
			expr = fmt.Sprintf("ENVIRON[\"T%d\"]", k)
		case "input":
			firstLine = name
			expr = "firstline"
		default:
			expr = awkStr(name)
		}
		var op string
		switch a.Kind {
		case "write":
			op = fmt.Sprintf("print \"w%d\" > (%s); r%d = 0", k, expr, k)
		case "append":
			op = fmt.Sprintf("print \"w%d\" >> (%s); r%d = 0", k, expr, k)
		case "printf":
			op = fmt.Sprintf("printf \"w%%d\\n\", %d > (%s); r%d = 0", k, expr, k)
		case "pipe-out":
			op = fmt.Sprintf("print \"p%d\" | (%s); r%d = 0", k, expr, k)
		case "pipe-in":
			op = fmt.Sprintf("r%d = ((%s) | getline); val(%d, $0)", k, expr, k)
		case "pipe-in-var":
			op = fmt.Sprintf("r%d = ((%s) | getline v%d); val(%d, v%d)", k, expr, k, k, k)
		case "read":
			op = fmt.Sprintf("r%d = (getline < (%s)); val(%d, $0)", k, expr, k)
		case "read-var":
			op = fmt.Sprintf("r%d = (getline v%d < (%s)); val(%d, v%d)", k, k, expr, k, k)
		case "system":
			op = fmt.Sprintf("r%d = system(%s)", k, expr)
		case "close":
			op = fmt.Sprintf("r%d = close(%s)", k, expr)
		case "fflush":
			op = fmt.Sprintf("r%d = fflush()", k)
		case "exit":
			// END still runs after an exit in BEGIN or in a rule
			op = fmt.Sprintf("r%d = 0; done(%d, 0); if (!inend) exit", k, k)
		}
		stmt := fmt.Sprintf("mark(%d); %s; done(%d, r%d)", k, op, k, k)
		if a.Guard > 0 && a.Guard < k {
			stmt = fmt.Sprintf("if (r%d >= 0) { %s }", a.Guard, stmt)
		}
		switch a.Where {
		case "rule":
			rule = append(rule, stmt)
		case "end":
			end = append(end, stmt)
		case "func":
			funcs = append(funcs, fmt.Sprintf("function fn%d() { %s }", k, stmt))
			begin = append(begin, fmt.Sprintf("fn%d()", k))
		default:
			begin = append(begin, stmt)
		}
	}
	var sb strings.Builder
	for _, f := range funcs {
		sb.WriteString(f + "\n")
	}
	sb.WriteString("BEGIN { ")
	if firstLine != "" {
		sb.WriteString("getline firstline < \"-\"; ")
	}
	sb.WriteString(strings.Join(append(pre, begin...), "; "))
	sb.WriteString(" }\n")
	if len(rule) > 0 {
		sb.WriteString("NR == 1 { " + strings.Join(rule, "; ") + " }\n")
	}
	sb.WriteString("{ seen(FILENAME, $0) }\n")
	sb.WriteString("END { inend = 1; " + strings.Join(end, "; ") + " }\n")
	return sb.String(), vars, environ, firstLine
}

// c12IsDevFd: /dev/fd/N names are ordinary file names for the interpreter (they must go through
// the flags and the OpenFile seam like any other); only the content check is skipped for them
// when the real os.OpenFile is in use, because they then denote the harness's own descriptors.
func c12IsDevFd(t string) bool { return strings.HasPrefix(t, "/dev/fd/") }

func c12IsSpecial(t string) bool { return t == "-" || t == "/dev/stdout" || t == "/dev/stderr" }

// c12Forbidden reports whether starting the attempt is forbidden by the flags
// ("maybe" for the special output names, whose treatment the statement leaves open).
func c12Forbidden(sc *c12Scn, a c12Attempt) string {
	switch a.Kind {
	case "write", "append", "printf":
		if sc.NoFileWrites {
			if a.Target == "-" {
				return "no"
			}
			if c12IsSpecial(a.Target) {
				return "maybe"
			}
			return "yes"
		}
	case "read", "read-var":
		if sc.NoFileReads && a.Target != "-" {
			return "yes"
		}
	case "pipe-out", "pipe-in", "pipe-in-var", "system":
		if sc.NoExec {
			return "yes"
		}
	}
	return "no"
}

var c12cwd string

// c12EnterCwd makes the process's working directory an empty private directory, so that an
// open that bypasses the OpenFile seam cannot find its file and a create leaves a stray.
func c12EnterCwd() string {
	if c12cwd == "" {
		d, err := os.MkdirTemp(scratchBase(), "cwd")
		if err != nil {
			core.Fatal("C12: cwd: %v", err)
		}
		if err := os.Chdir(d); err != nil {
			core.Fatal("C12: chdir: %v", err)
		}
		c12cwd = d
	}
	return c12cwd
}

func dirListing(dir string) string {
	var out []string
	filepath.Walk(dir, func(p string, fi os.FileInfo, err error) error {
		if err != nil || p == dir {
			return nil
		}
		rel, _ := filepath.Rel(dir, p)
		if fi.IsDir() {
			out = append(out, rel+"/")
			return nil
		}
		b, _ := os.ReadFile(p)
		out = append(out, fmt.Sprintf("%s=%q", rel, b))
		return nil
	})
	sort.Strings(out)
	return strings.Join(out, ";")
}

func (e c12Engine) Run(scAny any, keep bool) (out core.Outcome) {
	sc := scAny.(*c12Scn)
	log := core.NewLog(keep)
	cwd := c12EnterCwd()
	fs, err := core.NewSimFS(scratchBase(), log)
	if err != nil {
		core.Fatal("C12: simfs: %v", err)
	}
	defer fs.Remove()
	for name, f := range sc.Faults {
		fs.Plan[name] = core.FSFault(f)
	}
	startLog := filepath.Join(scratchBase(), "startlog")
	_ = os.Remove(startLog)
	os.Setenv("SIMSH_STARTLOG", startLog)
	defer os.Unsetenv("SIMSH_STARTLOG")
	// file world
	realName := func(v string) string {
		if sc.CustomOpen {
			return v
		}
		return filepath.Join(fs.Dir, "w", v)
	}
	put := func(v string, content string) {
		if sc.CustomOpen {
			_ = fs.Put(v, []byte(content))
		} else {
			p := realName(v)
			_ = os.MkdirAll(filepath.Dir(p), 0755)
			_ = os.WriteFile(p, []byte(content), 0644)
		}
	}
	initWorld := func() {
		_ = os.MkdirAll(filepath.Join(fs.Dir, "w", "sub"), 0755)
		if sc.CustomOpen {
			_ = os.MkdirAll(fs.Path("adir"), 0755)
		} else {
			_ = os.MkdirAll(realName("adir"), 0755)
		}
		put("in1", "i1a\ni1b\n")
		put("in2", "i2a\n")
		put("out2", "old\n")
	}
	initWorld()
	nameOf := func(t string) string {
		switch t {
		case "cw":
			return "cw;slurp;exit:0"
		case "cr":
			return "cr;emit:fromchild\n;exit:0"
		case "cs":
			return "cs;exit:3"
		case "blank":
			return "" // a command string that is empty at run time: still an attempt to start a process
		case "dash":
			return "-" // a command whose text is "-" is a command, not standard input
		case "empty":
			return "" // a file name that is empty at run time (an unset variable): still an attempt to open a file
		}
		if c12IsSpecial(t) || c12IsDevFd(t) {
			return t
		}
		return realName(t)
	}
	var args []string
	for _, a := range sc.Args {
		switch a {
		case "in1", "in2", "missing", "adir":
			args = append(args, realName(a))
		default:
			args = append(args, a)
		}
	}
	src, vars, environ, firstLine := c12Build(sc, nameOf, args)
	st := &c12State{dones: map[int]float64{}, vals: map[int]string{}}
	c12cur = st
	prog, perr := parser.ParseProgram([]byte(src), &parser.ParserConfig{Funcs: c12funcs})
	if perr != nil {
		core.Fatal("C12: generated program does not parse: %v\n%s", perr, src)
	}
	stdin := []byte(sc.Stdin)
	if firstLine != "" {
		stdin = append([]byte(firstLine+"\n"), stdin...)
	}
	if sc.ArgvRuntime {
		args = nil
	}
	stdout := core.NewSimSink("stdout", log)
	stderr := core.NewSimSink("stderr", nil)
	rstats := &core.ReaderStats{}
	cfg := &interp.Config{
		Stdin: core.NewSimReader("stdin", stdin, core.Delivery{}, rstats, nil), Output: stdout, Error: stderr,
		Funcs: c12funcs, Args: args, Vars: vars, Environ: environ,
		NoExec: sc.NoExec, NoFileWrites: sc.NoFileWrites, NoFileReads: sc.NoFileReads,
		ShellCommand: []string{simshPath(), "-"},
	}
	if cfg.Environ == nil {
		cfg.Environ = []string{}
	}
	if sc.CustomOpen {
		cfg.OpenFile = fs.Open
	}
	// the working directory must be empty at the start of every run (a stray left by an earlier
	// scenario of this process has already been reported there)
	if ents, err := os.ReadDir(cwd); err == nil {
		for _, en := range ents {
			_ = os.RemoveAll(filepath.Join(cwd, en.Name()))
		}
	}
	before := dirListing(fs.Dir)
	cwdBefore := dirListing(cwd)
	var res execResult
	warmPanic := ""
	if sc.ViaContext || sc.Warm {
		it, ierr := interp.New(prog)
		if ierr != nil {
			core.Fatal("C12: New: %v", ierr)
		}
		if sc.Warm {
			// an earlier, unrestricted run of the same program in a world of its own
			wfs, werr := core.NewSimFS(scratchBase(), nil)
			if werr != nil {
				core.Fatal("C12: simfs: %v", werr)
			}
			_ = wfs.Put("in1", []byte("i1a\ni1b\n"))
			_ = wfs.Put("in2", []byte("i2a\n"))
			warm := *cfg
			warm.NoExec, warm.NoFileWrites, warm.NoFileReads = false, false, false
			warm.Stdin = core.NewSimReader("stdin", stdin, core.Delivery{}, nil, nil)
			warm.Output, warm.Error = core.NewSimSink("warm", nil), core.NewSimSink("warmerr", nil)
			if sc.CustomOpen {
				warm.OpenFile = wfs.Open
			}
			var wr execResult
			if sc.WarmSame {
				measured := *cfg
				*cfg = warm
				wr = guarded(func() (int, error) { return it.Execute(cfg) })
				*cfg = measured
			} else {
				wr = guarded(func() (int, error) { return it.Execute(&warm) })
			}
			wfs.Remove()
			if !sc.CustomOpen {
				// without a custom OpenFile the program's absolute names lead the warm-up run into
				// the very same directory: what it wrote or truncated there is undone, the measured
				// run starts from the initial world
				_ = os.RemoveAll(filepath.Join(fs.Dir, "w"))
				initWorld()
			}
			warmPanic = wr.Panic
			if !sc.WarmNoReset {
				it.ResetVars()
			}
			// only the measured run is judged
			st.marks, st.seen = nil, nil
			st.dones, st.vals = map[int]float64{}, map[int]string{}
			_ = os.Remove(startLog)
			before = dirListing(fs.Dir)
			cwdBefore = dirListing(cwd)
		}
		if sc.ViaContext {
			ctx := core.NewSimContext()
			res = guarded(func() (int, error) { return it.ExecuteContext(ctx, cfg) })
		} else {
			res = guarded(func() (int, error) { return it.Execute(cfg) })
		}
	} else {
		res = execProgram(prog, cfg)
	}
	after := dirListing(fs.Dir)
	cwdAfter := dirListing(cwd)
	var started []string
	if b, err := os.ReadFile(startLog); err == nil {
		started = strings.Split(strings.TrimSpace(string(b)), "\n")
		sort.Strings(started) // children start concurrently with the interpreter: the order in the log is not an observation
	}
	norm := func(s string) string { return strings.ReplaceAll(s, fs.Dir, "<fs>") } // the scratch directory has a random name
	log.Addf("flags exec=%v w=%v r=%v custom=%v marks=%v dones=%v seen=%s started=%s status=%d err=%q panic=%q dir=%x", sc.NoExec, sc.NoFileWrites, sc.NoFileReads, sc.CustomOpen,
		st.marks, len(st.dones), norm(fmt.Sprintf("%q", st.seen)), norm(fmt.Sprintf("%q", started)), res.Status, norm(res.errString()), res.Panic, core.HashString(norm(after)))
	desc := fmt.Sprintf("flags{NoExec=%v NoFileWrites=%v NoFileReads=%v} custom_open=%v faults=%v args=%q program:\n%s", sc.NoExec, sc.NoFileWrites, sc.NoFileReads, sc.CustomOpen, sc.Faults, sc.Args, src)
	fail := func(oracle, detail string) core.Outcome {
		out.Fail = &core.Failure{Oracle: oracle, Detail: detail + "\n" + desc}
		return out
	}
	forbiddenStarted := false
	touched := false
	defer func() {
		anyFlag := sc.NoExec || sc.NoFileWrites || sc.NoFileReads
		out.One(log.Hash(), (anyFlag && forbiddenStarted) || (!anyFlag && touched))
		if keep {
			out.Log = log.Lines
		}
	}()
	if warmPanic != "" {
		return fail("panic", "warm-up run: "+warmPanic)
	}
	if res.Panic != "" {
		return fail("panic", res.Panic)
	}
	// --- world invariants ---
	if sc.NoExec && len(started) > 0 {
		return fail("noexec-process-started", fmt.Sprintf("NoExec is set but processes were started: %q", started))
	}
	writeOpens, readOpens := 0, 0
	for _, ev := range fs.Events {
		if ev.Write {
			writeOpens++
		} else {
			readOpens++
		}
	}
	if sc.NoFileWrites {
		if writeOpens > 0 {
			return fail("nofilewrites-open", fmt.Sprintf("NoFileWrites is set but OpenFile was asked to open for writing: %+v", fs.Events))
		}
		if before != after {
			return fail("nofilewrites-directory-changed", fmt.Sprintf("NoFileWrites is set but the directory changed: before %s after %s", before, after))
		}
	}
	if sc.NoFileReads {
		if readOpens > 0 {
			return fail("nofilereads-open", fmt.Sprintf("NoFileReads is set but OpenFile was asked to open for reading: %+v", fs.Events))
		}
		for _, s := range st.seen {
			if !strings.HasPrefix(s, "-:") && !strings.HasPrefix(s, ":") {
				return fail("nofilereads-operand-read", fmt.Sprintf("NoFileReads is set but a record of a file operand was seen: %q", s))
			}
		}
		for k, v := range st.vals {
			a := sc.Attempts[k-1]
			if (a.Kind == "read" || a.Kind == "read-var") && a.Target != "-" && strings.HasPrefix(v, "i") && st.dones[k] > 0 {
				return fail("nofilereads-data-read", fmt.Sprintf("NoFileReads is set but attempt %d read %q from %s", k, v, a.Target))
			}
		}
	}
	if cwdBefore != cwdAfter {
		return fail("openfile-bypassed", fmt.Sprintf("the empty working directory changed (a file was created outside the OpenFile seam): before %q after %q", cwdBefore, cwdAfter))
	}
	// --- first forbidden attempt ends the run with an error ---
	for idx, k := range st.marks {
		a := sc.Attempts[k-1]
		fb := c12Forbidden(sc, a)
		_, completed := st.dones[k]
		last := idx == len(st.marks)-1
		if fb == "yes" {
			forbiddenStarted = true
			out.Probe("forbidden_attempt_started:"+a.Kind, 1)
			if completed || !last || res.Err == nil {
				return fail("forbidden-attempt-did-not-end-the-run", fmt.Sprintf("attempt %d (%s %s via %s in %s) is forbidden by the flags: completed=%v, later attempts started=%v, run error=%v",
					k, a.Kind, a.Target, a.Via, a.Where, completed, !last, res.Err))
			}
		}
		if fb == "maybe" && !completed {
			if !last || res.Err == nil {
				return fail("forbidden-attempt-did-not-end-the-run", fmt.Sprintf("attempt %d (%s %s) was refused but the run went on: later attempts started=%v, run error=%v", k, a.Kind, a.Target, !last, res.Err))
			}
		}
	}
	exited := false // an exit in BEGIN or in a rule ends the main loop early: operands may never be reached
	for _, k := range st.marks {
		if a := sc.Attempts[k-1]; a.Kind == "exit" && a.Where != "end" {
			exited = true
		}
	}
	// a file operand under NoFileReads must end the run with an error when it is reached
	if sc.NoFileReads && res.Err == nil && !exited {
		reached := true
		for _, k := range st.marks {
			if _, ok := st.dones[k]; !ok {
				reached = false
			}
		}
		if reached {
			for _, a := range sc.Args {
				if a == "in1" || a == "in2" || a == "missing" || a == "adir" {
					// operands are processed left to right; every earlier operand is readable (stdin, assignment, empty)
					return fail("nofilereads-operand-accepted", fmt.Sprintf("NoFileReads is set, operand %q was reached, but the run returned no error", a))
				}
				break
			}
		}
	}
	// --- permitted attempts really touch the world (guards against a vacuous check) ---
	for _, k := range st.marks {
		a := sc.Attempts[k-1]
		r, completed := st.dones[k]
		if !completed || c12Forbidden(sc, a) != "no" {
			continue
		}
		if len(sc.Faults) > 0 {
			continue
		}
		switch a.Kind {
		case "system", "pipe-in", "pipe-in-var", "pipe-out":
			if a.Target == "blank" || a.Target == "dash" {
				continue // nothing observable is required of an empty or "-" command when it is permitted
			}
			found := false
			want := strings.ReplaceAll(nameOf(a.Target), "\n", "\\n")
			for _, s := range started {
				found = found || s == want
			}
			if !found {
				return fail("permitted-exec-did-not-happen", fmt.Sprintf("attempt %d (%s) completed with result %v but no process start was observed (started: %q)", k, a.Kind, r, started))
			}
			touched = true
			out.Probe("permitted_exec_observed", 1)
			if a.Kind == "system" && a.Target == "blank" {
				continue
			}
			if a.Kind == "system" && r != 3 {
				return fail("permitted-exec-did-not-happen", fmt.Sprintf("system() of a child exiting with 3 returned %v", r))
			}
			if (a.Kind == "pipe-in" || a.Kind == "pipe-in-var") && r == 1 && st.vals[k] != "fromchild" {
				return fail("permitted-exec-did-not-happen", fmt.Sprintf("cmd | getline returned 1 but the value is %q", st.vals[k]))
			}
		case "write", "append", "printf":
			if c12IsSpecial(a.Target) {
				continue
			}
			if sc.CustomOpen {
				found := false
				for _, ev := range fs.Events {
					found = found || (ev.Write && ev.Name == a.Target)
				}
				if !found {
					return fail("openfile-bypassed", fmt.Sprintf("attempt %d wrote to %q but the custom OpenFile was never asked to open it for writing (events %+v)", k, a.Target, fs.Events))
				}
			}
			if c12IsDevFd(a.Target) && !sc.CustomOpen {
				continue
			}
			if !strings.Contains(after, fmt.Sprintf("w%d", k)) {
				// a later '>' re-open after close may truncate: accept only if such a re-open exists
				reopened := false
				seenSelf := false
				for _, k2 := range st.marks { // execution order, not attempt numbering
					if k2 == k {
						seenSelf = true
						continue
					}
					a2 := sc.Attempts[k2-1]
					if seenSelf && a2.Target == a.Target && (a2.Kind == "write" || a2.Kind == "printf") {
						reopened = true
					}
				}
				if !reopened {
					return fail("permitted-write-did-not-happen", fmt.Sprintf("attempt %d (%s %s) completed but its token w%d is not in the directory: %s", k, a.Kind, a.Target, k, after))
				}
			}
			touched = true
			out.Probe("permitted_write_observed", 1)
		case "read", "read-var":
			if a.Target == "in1" || a.Target == "in2" {
				if sc.CustomOpen {
					found := false
					for _, ev := range fs.Events {
						found = found || (!ev.Write && ev.Name == a.Target)
					}
					if !found {
						return fail("openfile-bypassed", fmt.Sprintf("attempt %d read %q but the custom OpenFile was never asked for it (events %+v)", k, a.Target, fs.Events))
					}
				}
				rewritten := false // the program itself may have written the input file earlier
				for _, k2 := range st.marks {
					a2 := sc.Attempts[k2-1]
					if a2.Target == a.Target && (a2.Kind == "write" || a2.Kind == "printf" || a2.Kind == "append") {
						rewritten = true
					}
				}
				if r == 1 && !rewritten && !strings.HasPrefix(st.vals[k], "i"+a.Target[2:]) {
					return fail("permitted-read-wrong-data", fmt.Sprintf("attempt %d read %q from %s", k, st.vals[k], a.Target))
				}
				if r < 0 {
					// reading a name that is open for output is an error elsewhere, not -1; an existing file must be readable
					return fail("permitted-read-did-not-happen", fmt.Sprintf("attempt %d: getline from existing file %s returned %v", k, a.Target, r))
				}
				touched = true
				out.Probe("permitted_read_observed", 1)
			}
			if a.Target == "-" && r == 1 {
				out.Probe("stdin_read_under_dash", 1)
				if !strings.HasPrefix(st.vals[k], "s") && st.vals[k] != firstLine {
					return fail("stdin-dash-wrong-data", fmt.Sprintf("getline < \"-\" returned %q", st.vals[k]))
				}
			}
		}
	}
	// "standard input, including under the name '-', stays available": an operand list of "-",
	// empty strings and assignments is no file read at all
	onlyStdinOperands := len(sc.Args) > 0
	for _, a := range sc.Args {
		if a != "-" && a != "" && a != "v=1" {
			onlyStdinOperands = false
		}
	}
	if sc.NoFileReads && onlyStdinOperands && res.Err != nil && !forbiddenStarted {
		incomplete := false
		for _, k := range st.marks {
			if _, ok := st.dones[k]; !ok {
				incomplete = true
			}
		}
		if !incomplete && len(sc.Faults) == 0 {
			return fail("stdin-operand-refused", fmt.Sprintf("NoFileReads is set and the operands %q name no file, yet the run failed: %v", sc.Args, res.Err))
		}
	}
	// stdin stays available under NoFileReads: if the main loop ran on stdin it saw its records
	sharedStdin := false // a child started by system() or cmd|getline inherits (and may drain) standard input
	for _, k := range st.marks {
		switch sc.Attempts[k-1].Kind {
		case "system", "pipe-in", "pipe-in-var":
			sharedStdin = true
		case "read", "read-var":
			// getline < "-" puts a second buffered scanner on the same stream: which of
			// the two gets which bytes is specified by no property
			sharedStdin = sharedStdin || sc.Attempts[k-1].Target == "-"
		}
	}
	sharedStdin = sharedStdin || firstLine != ""
	if sc.NoFileReads && res.Err == nil && len(sc.Args) == 0 && !sharedStdin && !exited {
		n := 0
		for _, s := range st.seen {
			if strings.HasPrefix(s, "-:s") || strings.HasPrefix(s, ":s") {
				n++
			}
		}
		if n == 0 {
			return fail("stdin-unavailable", fmt.Sprintf("NoFileReads is set, no operands: standard input should have been read by the main loop, seen=%q", st.seen))
		}
		out.Probe("stdin_available_under_nofilereads", 1)
	}
	for f, n := range fs.Fired {
		out.Probe("fault:openfile_"+string(f), n)
	}
	return out
}

func (c12Engine) Shrink(scAny any) []any {
	sc := scAny.(*c12Scn)
	var out []any
	add := func(f func(c *c12Scn)) {
		c := *sc
		c.Attempts = append([]c12Attempt(nil), sc.Attempts...)
		c.Args = append([]string(nil), sc.Args...)
		f(&c)
		out = append(out, &c)
	}
	for i := range sc.Attempts {
		i := i
		add(func(c *c12Scn) {
			c.Attempts = append(c.Attempts[:i:i], c.Attempts[i+1:]...)
			for j := range c.Attempts {
				if c.Attempts[j].Guard > i+1 {
					c.Attempts[j].Guard--
				} else if c.Attempts[j].Guard == i+1 {
					c.Attempts[j].Guard = 0
				}
			}
		})
	}
	for i, a := range sc.Attempts {
		i := i
		if a.Guard != 0 {
			add(func(c *c12Scn) { c.Attempts[i].Guard = 0 })
		}
		if a.Via != "lit" {
			add(func(c *c12Scn) { c.Attempts[i].Via = "lit" })
		}
		if a.Where != "begin" {
			add(func(c *c12Scn) { c.Attempts[i].Where = "begin" })
		}
	}
	if len(sc.Args) > 0 {
		add(func(c *c12Scn) { c.Args = nil })
	}
	if len(sc.Faults) > 0 {
		add(func(c *c12Scn) { c.Faults = nil })
	}
	if sc.NoExec {
		add(func(c *c12Scn) { c.NoExec = false })
	}
	if sc.NoFileWrites {
		add(func(c *c12Scn) { c.NoFileWrites = false })
	}
	if sc.NoFileReads {
		add(func(c *c12Scn) { c.NoFileReads = false })
	}
	if !sc.CustomOpen {
		add(func(c *c12Scn) { c.CustomOpen = true })
	}
	if sc.ViaContext {
		add(func(c *c12Scn) { c.ViaContext = false })
	}
	if sc.Warm {
		add(func(c *c12Scn) { c.Warm, c.WarmSame, c.WarmNoReset = false, false, false })
		if sc.WarmSame {
			add(func(c *c12Scn) { c.WarmSame = false })
		}
		if sc.WarmNoReset {
			add(func(c *c12Scn) { c.WarmNoReset = false })
		}
	}
	if sc.ArgvRuntime {
		add(func(c *c12Scn) { c.ArgvRuntime = false })
	}
	return out
}
