package eng

import (
	"bufio"
	"bytes"
	"encoding/csv"
	"fmt"
	"io"
	"strings"
	"unicode/utf8"

	"github.com/benhoyt/goawk/interp"
	"github.com/benhoyt/goawk/verifharness/core"
)

// ---------------------------------------------------------------------------------------
// C08 — CSV/TSV input follows RFC 4180; CSV output reads back to the same fields.
// ---------------------------------------------------------------------------------------

type c08Scn struct {
	// Kind: "input" (W1) or "roundtrip" (W2)
	Kind string `json:"kind"`
	Mode string `json:"mode"` // csv | tsv
	// Sep / Comment are single characters as strings ("" = default / none).
	Sep     string `json:"sep,omitempty"`
	Comment string `json:"comment,omitempty"`
	Header  bool   `json:"header,omitempty"`
	// ViaVars: the mode is given through the INPUTMODE/OUTPUTMODE variables instead of Config fields.
	ViaVars bool `json:"via_vars,omitempty"`
	// Where: stdin | file
	Where string `json:"where,omitempty"`
	BOM   bool   `json:"bom,omitempty"`
	// Side: before looking at a record's fields the program reads a line of another CSV file
	// into a variable (getline var <file must not disturb the current record)
	Side bool `json:"side,omitempty"`
	// Via: how the records are obtained: "" (pattern-action main loop), "getline" (plain getline in
	// a BEGIN loop over the main input), "getfile" (getline <"f0" in a BEGIN loop; Where must be "file")
	Via string `json:"via,omitempty"`
	// Split > 0 (Where "file", main loop, no header): the data is two operands, f0 = Data[:Split]
	// and f1 = Data[Split:], each starting with a byte-order mark when BOM is set
	Split int           `json:"split,omitempty"`
	Data  core.Bytes    `json:"data,omitempty"`
	D     core.Delivery `json:"delivery"`
	Enum  string        `json:"enum,omitempty"`
	// round trip
	Rows   [][]core.Bytes `json:"rows,omitempty"`
	Writer string         `json:"writer,omitempty"` // print | rebuild
	CRLF   bool           `json:"crlf,omitempty"`
	// WarmMode: the writer Interpreter is reused: it first wrote the same rows in this other output mode ("csv"/"tsv")
	WarmMode string `json:"warm_mode,omitempty"`
	// ToFile: the writer prints to a file (print ... > "out") instead of standard output
	ToFile bool `json:"to_file,omitempty"`
	// WBuf > 0: the writer's Config.Output is a real *bufio.Writer of this size around the sink
	WBuf int `json:"wbuf,omitempty"`
}

type c08Rec struct {
	NR     int
	NF     int
	Line   string
	Fields []string
	// Split: what split($0, arr) gave; Re: the fields after $0 = $0 (both parse the record's text
	// again with the CSV parser); HasSplit says whether the program observed them
	Split, Re []string
	HasSplit  bool
}

type c08Obs struct {
	Recs   []c08Rec
	Hdr    []string
	Named  []string // value of @name per record (name = first unique header name)
	FinNR  int
	Fin    bool
	Res    execResult
	Stats  core.ReaderStats
	Bounds []int
	cur    []string
}

var c08cur *c08Obs
var c08rows [][]core.Bytes

var c08funcs = map[string]any{
	"fld": func(nr, i int, v string) { c08cur.cur = append(c08cur.cur, v) },
	"rec": func(nr, nf int, line string) {
		c08cur.Recs = append(c08cur.Recs, c08Rec{NR: nr, NF: nf, Line: line, Fields: c08cur.cur})
		c08cur.cur = nil
	},
	"sp": func(nr, i int, v string) {
		r := &c08cur.Recs[len(c08cur.Recs)-1]
		r.Split, r.HasSplit = append(r.Split, v), true
	},
	"re": func(nr, i int, v string) {
		r := &c08cur.Recs[len(c08cur.Recs)-1]
		r.Re, r.HasSplit = append(r.Re, v), true
	},
	"spn":   func(nr, n, nf int) { c08cur.Recs[len(c08cur.Recs)-1].HasSplit = true },
	"hdr":   func(i int, name string) { c08cur.Hdr = append(c08cur.Hdr, name) },
	"named": func(v string) { c08cur.Named = append(c08cur.Named, v) },
	"fin": func(nr int) {
		c08cur.Fin = true
		c08cur.FinNR = nr
	},
	"nrows": func() int { return len(c08rows) },
	"ncols": func(r int) int { return len(c08rows[r-1]) },
	"v":     func(r, i int) string { return string(c08rows[r-1][i-1]) },
}

const c08ReadProg = `{ if (side) getline sidevar < "side"; for (i = 1; i <= NF; i++) fld(NR, i, $i); rec(NR, NF, $0)
  n = split($0, arr); for (i = 1; i <= n; i++) sp(NR, i, arr[i]); $0 = $0; for (i = 1; i <= NF; i++) re(NR, i, $i); spn(NR, n, NF) } END { fin(NR) }`
const c08ReadHdrProg = `NR == 1 { for (i = 1; i in FIELDS; i++) hdr(i, FIELDS[i]) }
{ for (i = 1; i <= NF; i++) fld(NR, i, $i); rec(NR, NF, $0); if (nm != "") named(@nm) } END { fin(NR) }`
const c08RebuildProg = `BEGIN { n = nrows(); for (r = 1; r <= n; r++) { $0 = ""; k = ncols(r); for (i = 1; i <= k; i++) $i = v(r, i); print } }`
// the rebuilt record is printed by a pattern-only rule (one input line per row)
const c08RebuildImplicitProg = `{ r = NR; $0 = ""; k = ncols(r); for (i = 1; i <= k; i++) $i = v(r, i) } 1`
const c08RebuildFileProg = `BEGIN { n = nrows(); for (r = 1; r <= n; r++) { $0 = ""; k = ncols(r); for (i = 1; i <= k; i++) $i = v(r, i); print > "out" } }`

// c08ViaProg is the reader program for records obtained by getline in a BEGIN loop; n names the
// record counter (NR for the main input; a getline from a file does not count in NR).
func c08ViaProg(header bool, cond, n string, own bool) string {
	body := ""
	if own {
		body = "n++; "
	}
	if header {
		body += "if (" + n + " == 1) for (i = 1; i in FIELDS; i++) hdr(i, FIELDS[i]); "
	} else {
		body += "if (side) getline sidevar < \"side\"; "
	}
	body += "for (i = 1; i <= NF; i++) fld(" + n + ", i, $i); rec(" + n + ", NF, $0); "
	if header {
		body += "if (nm != \"\") named(@nm); "
	}
	if own {
		return "BEGIN { while (" + cond + ") { " + body + "} fin(n + 0) }"
	}
	return "BEGIN { while (" + cond + ") { " + body + "} } END { fin(NR) }"
}

type c08Engine struct{}

func init() { core.Register(c08Engine{}) }

func (c08Engine) ID() string               { return "C08" }
func (c08Engine) Level(tier string) string { return "fault_enumeration" }
func (c08Engine) Rule() string {
	return "W1: scenario = (csv|tsv, separator, comment char, header, BOM, input bytes over an alphabet of separator/quote/CR/LF/comment/filler, delivery schedule); every execution's fields are compared with encoding/csv (LazyQuotes, FieldsPerRecord -1) on the BOM-less bytes, $0 with the record's own byte range, and with the one-shot run; 'allchunk' enumerates every composition of the input, 'splits' every split point. W2: a writer interpreter in CSV/TSV output mode prints generated CR-free rows (print args / $0 rebuild, raw or CRLF newlines) into a SimSink whose bytes are delivered under a drawn schedule to a reader interpreter in the matching input mode. Distinct = distinct event-log hash; non-trivial = at least one record was produced and (W1) the schedule split the input or (W2) some value needed quoting."
}
func (c08Engine) Assumptions() []string {
	return []string{
		"encoding/csv.Reader with LazyQuotes is the RFC 4180 reference named by the property",
		"$0 comparison is byte-exact for records whose raw bytes contain no CR and modulo CR deletion otherwise (the statement does not say which CR handling is right)",
		"round trip: values are CR-free as the property states; duplicate header names are not looked up by name",
	}
}
func (c08Engine) Components() map[string]string {
	return map[string]string{
		"csvSplitter, bufio.Scanner, writeCSV/encoding/csv.Writer, field access": "real",
		"stdin": "stub (SimReader)", "stdout of the writer": "stub (SimSink)", "files": "real files behind Config.OpenFile, delivery shaped through hook H2",
	}
}
func (c08Engine) Count(tier string) int {
	if tier == "thorough" {
		return 200000
	}
	return 12000
}
func (c08Engine) BudgetS(tier string) int {
	if tier == "thorough" {
		return 900
	}
	return 50
}
func (c08Engine) Workers(tier string) int { return 0 }
func (c08Engine) NewScenario() any        { return &c08Scn{} }

func c08SepRune(sc *c08Scn) rune {
	if sc.Sep != "" {
		r, _ := utf8.DecodeRuneInString(sc.Sep)
		return r
	}
	if sc.Mode == "tsv" {
		return '\t'
	}
	return ','
}

func (c08Engine) Gen(r *core.Rand, tier string, i int) any {
	sc := &c08Scn{Kind: "input", Mode: core.Pick(r, []string{"csv", "csv", "tsv"}), Where: "stdin"}
	if r.Chance(1, 2) {
		sc.Sep = core.Pick(r, []string{",", "\t", "|", ";", "é", "€", " ", "a"})
	}
	if r.Chance(1, 3) {
		sc.Comment = core.Pick(r, []string{"#", "é", "%", "c"})
		if sc.Comment == string(c08SepRune(sc)) {
			sc.Comment = ""
		}
	}
	sc.ViaVars = r.Chance(1, 4)
	if sc.Sep == " " || sc.Sep == "\t" {
		sc.ViaVars = false // the INPUTMODE/OUTPUTMODE syntax is blank-separated: such separators need Config
	}
	if r.Chance(1, 4) {
		sc.Kind = "roundtrip"
		sc.Comment = ""
		sc.Writer = core.Pick(r, []string{"print", "rebuild", "print", "rebuild", "rebuild-implicit"})
		sc.CRLF = r.Chance(1, 3)
		if r.Chance(1, 4) {
			sc.WarmMode = core.Pick(r, []string{"csv", "tsv"})
		}
		sc.ToFile = r.Chance(1, 4) && sc.Writer != "rebuild-implicit"
		if r.Chance(1, 4) {
			sc.WBuf = core.Pick(r, []int{16, 64, 1000, 4096, 8192})
		}
		if r.Chance(1, 4) {
			sc.Via = "getline"
		}
		sep := string(c08SepRune(sc))
		alpha := []string{"a", "b", " ", sep, sep, "\"", "\"\"", "\n", "#", "x", "", "é", "\xff", "\t", ","}
		nrows := r.Range(1, 4)
		for k := 0; k < nrows; k++ {
			ncols := r.Range(1, 4)
			var row []core.Bytes
			for c := 0; c < ncols; c++ {
				var v []byte
				for n := r.Intn(5); n > 0; n-- {
					v = append(v, core.Pick(r, alpha)...)
				}
				row = append(row, v)
			}
			sc.Rows = append(sc.Rows, row)
		}
		sc.D = genDelivery(r, 40)
		return sc
	}
	sc.Header = r.Chance(1, 4)
	sc.BOM = r.Chance(1, 5)
	if r.Chance(1, 6) {
		sc.Where = "file"
		sc.Side = r.Bool()
	}
	if r.Chance(1, 5) {
		sc.Via = "getline"
		if sc.Where == "file" && r.Bool() {
			sc.Via = "getfile"
		}
	}
	sep := string(c08SepRune(sc))
	alpha := []string{sep, sep, sep, "\"", "\"", "\"\"", "\r", "\n", "\n", "\r\n", " ", "a", "b", "x", "\x00"}
	if sc.Comment != "" {
		alpha = append(alpha, sc.Comment, sc.Comment)
	}
	if len(sep) > 1 {
		alpha = append(alpha, sep[:1], sep[1:])
	}
	if r.Chance(1, 4) {
		alpha = append(alpha, "\xef\xbb\xbf") // U+FEFF as data: only a *leading* one is a byte-order mark
	}
	enumMax := 8
	if tier == "thorough" {
		enumMax = 12
	}
	maxLen := 28
	kind := r.Intn(100)
	switch {
	case kind < 35:
		sc.Enum = "allchunk"
		maxLen = enumMax
		if sc.BOM {
			maxLen = enumMax - 3
		}
	case kind < 55:
		sc.Enum = "splits"
		maxLen = 36
	}
	n := r.Intn(maxLen + 1)
	var data []byte
	for len(data) < n {
		data = append(data, core.Pick(r, alpha)...)
	}
	if len(data) > maxLen {
		data = data[:maxLen]
	}
	sc.Data = data
	if sc.Where == "file" && sc.Via == "" && !sc.Header && !sc.Side && len(data) > 1 && r.Chance(1, 2) {
		sc.Split = r.Range(1, len(data)-1)
	}
	if sc.Enum == "" {
		total := len(data)
		if sc.BOM {
			total += 3
		}
		sc.D = genDelivery(r, total)
	}
	return sc
}

// enumDeliveries calls f for every schedule of the enumeration mode over n bytes.
func enumDeliveries(enum string, n int, f func(d core.Delivery) bool) {
	switch enum {
	case "allchunk":
		compositions(n, func(parts []int) bool {
			for eof := 0; eof < 2; eof++ {
				if !f(core.Delivery{Chunks: append([]int(nil), parts...), EOFWithData: eof == 1}) {
					return false
				}
			}
			return true
		})
	case "splits":
		for k := 1; k < n; k++ {
			if !f(core.Delivery{Chunks: []int{k}}) || !f(core.Delivery{Chunks: []int{k}, EOFWithData: true}) {
				return
			}
		}
		ones := make([]int, n)
		zeros := make([]int, 0, 2*n)
		for k := range ones {
			ones[k] = 1
			zeros = append(zeros, 0, 1)
		}
		for _, d := range []core.Delivery{{}, {EOFWithData: true}, {Chunks: ones}, {Chunks: ones, EOFWithData: true}, {Chunks: zeros}} {
			if !f(d) {
				return
			}
		}
	}
}

func (sc *c08Scn) input() []byte {
	if sc.BOM {
		return append([]byte{0xEF, 0xBB, 0xBF}, sc.Data...)
	}
	return []byte(sc.Data)
}

func c08ModeString(sc *c08Scn, input bool) string {
	s := sc.Mode
	if sc.Sep != "" {
		s += " separator=" + sc.Sep
	}
	if input {
		if sc.Comment != "" {
			s += " comment=" + sc.Comment
		}
		if sc.Header {
			s += " header"
		}
	}
	return s
}

func c08IOMode(m string) interp.IOMode {
	if m == "tsv" {
		return interp.TSVMode
	}
	return interp.CSVMode
}

// c08ExecRead runs the reader program over data under delivery d.
func c08ExecRead(sc *c08Scn, data []byte, d core.Delivery, nm string, log *core.Log) *c08Obs {
	obs := &c08Obs{}
	c08cur = obs
	src := c08ReadProg
	if sc.Header {
		src = c08ReadHdrProg
	}
	switch sc.Via {
	case "getline":
		src = c08ViaProg(sc.Header, "(getline) > 0", "NR", false)
	case "getfile":
		src = c08ViaProg(sc.Header, `(getline < "f0") > 0`, "n", true)
	}
	prog, err := parse("c08", src, c08funcs)
	if err != nil {
		core.Fatal("C08: parse: %v", err)
	}
	cfg := &interp.Config{Stdin: nullFile(), Output: io.Discard, Error: io.Discard, Funcs: c08funcs, Environ: []string{}}
	if sc.ViaVars {
		cfg.Vars = []string{"INPUTMODE", c08ModeString(sc, true)}
	} else {
		cfg.InputMode = c08IOMode(sc.Mode)
		if sc.Sep != "" {
			cfg.CSVInput.Separator, _ = utf8.DecodeRuneInString(sc.Sep)
		}
		if sc.Comment != "" {
			cfg.CSVInput.Comment, _ = utf8.DecodeRuneInString(sc.Comment)
		}
		cfg.CSVInput.Header = sc.Header
	}
	if sc.Header {
		cfg.Vars = append(cfg.Vars, "nm", nm)
	}
	if sc.Side && sc.Where == "file" && !sc.Header {
		cfg.Vars = append(cfg.Vars, "side", "1")
	}
	var sim *core.SimReader
	var shaped *core.ShapedReader
	if sc.Where == "file" {
		fs, err := core.NewSimFS(scratchBase(), log)
		if err != nil {
			core.Fatal("C08: simfs: %v", err)
		}
		defer fs.Remove()
		if sc.Split > 0 && sc.Split < len(sc.Data) {
			bom := []byte{}
			if sc.BOM {
				bom = []byte{0xEF, 0xBB, 0xBF}
			}
			_ = fs.Put("f0", append(append([]byte{}, bom...), sc.Data[:sc.Split]...))
			_ = fs.Put("f1", append(append([]byte{}, bom...), sc.Data[sc.Split:]...))
		} else {
			_ = fs.Put("f0", data)
		}
		_ = fs.Put("side", []byte("s1,s2,s3\nt1,t2\n\"u,1\",u2,u3,u4\n"))
		cfg.OpenFile = fs.Open
		if sc.Via != "getfile" {
			cfg.Args = []string{"f0"}
			if sc.Split > 0 && sc.Split < len(sc.Data) {
				cfg.Args = []string{"f0", "f1"}
			}
		}
		interp.VerifWrapReader = func(r io.Reader) io.Reader {
			if shaped != nil {
				return r
			}
			shaped = &core.ShapedReader{Under: r, Name: "f0", D: d, Stats: &obs.Stats, Log: log}
			return shaped
		}
		defer func() { interp.VerifWrapReader = nil }()
	} else {
		sim = core.NewSimReader("stdin", data, d, &obs.Stats, log)
		cfg.Stdin = sim
	}
	obs.Res = execProgram(prog, cfg)
	if sim != nil {
		obs.Bounds = sim.Bounds
	} else if shaped != nil && shaped.Sim() != nil {
		obs.Bounds = shaped.Sim().Bounds
	}
	for _, rec := range obs.Recs {
		log.Addf("rec %d %d %q %q split=%q re=%q", rec.NR, rec.NF, rec.Line, rec.Fields, rec.Split, rec.Re)
	}
	log.Addf("hdr %q named %q fin %v %d status=%d err=%q panic=%q", obs.Hdr, obs.Named, obs.Fin, obs.FinNR, obs.Res.Status, obs.Res.errString(), obs.Res.Panic)
	return obs
}

// c08RefRec is a record of the reference reader with its raw byte range.
type c08RefRec struct {
	Fields []string
	Raw    string // the record's own bytes, terminator included
}

// c08Reference parses data (BOM already removed) with encoding/csv.
func c08Reference(sc *c08Scn, data []byte) ([]c08RefRec, error) {
	rd := csv.NewReader(bytes.NewReader(data))
	rd.Comma = c08SepRune(sc)
	if sc.Comment != "" {
		rd.Comment, _ = utf8.DecodeRuneInString(sc.Comment)
	}
	rd.LazyQuotes = true
	rd.FieldsPerRecord = -1
	var out []c08RefRec
	prev := 0
	for {
		fields, err := rd.Read()
		if err == io.EOF {
			return out, nil
		}
		if err != nil {
			return out, err
		}
		off := int(rd.InputOffset())
		raw := data[prev:off]
		prev = off
		// skip blank and comment lines in front of the record
		for {
			nl := bytes.IndexByte(raw, '\n')
			if nl < 0 {
				break
			}
			line := raw[:nl+1]
			blank := len(line) == 1 || (len(line) == 2 && line[0] == '\r')
			comment := false
			if rd.Comment != 0 {
				c, _ := utf8.DecodeRune(line)
				comment = c == rd.Comment
			}
			if !blank && !comment {
				break
			}
			raw = raw[nl+1:]
		}
		out = append(out, c08RefRec{Fields: append([]string(nil), fields...), Raw: string(raw)})
	}
}

// c08CRLFInsideQuotes reports whether a CR LF pair of the record's raw bytes lies inside a quoted
// field (lenient quotes: a field is quoted when it starts with a quote; inside, a quote followed
// by a quote is a quote, followed by the separator or the end of the line it closes the field,
// anything else is a bare quote).
func c08CRLFInsideQuotes(raw string, sep rune) bool {
	inQ, atStart := false, true
	for i := 0; i < len(raw); {
		if !inQ {
			if atStart && raw[i] == '"' {
				inQ, atStart = true, false
				i++
				continue
			}
			r, n := utf8.DecodeRuneInString(raw[i:])
			atStart = r == sep || r == '\n'
			i += n
			continue
		}
		if raw[i] == '"' {
			rest := raw[i+1:]
			if strings.HasPrefix(rest, "\"") {
				i += 2
				continue
			}
			r, n := utf8.DecodeRuneInString(rest)
			if len(rest) > 0 && r == sep {
				inQ, atStart = false, true
				i += 1 + n
				continue
			}
			if rest == "" || strings.HasPrefix(rest, "\n") || strings.HasPrefix(rest, "\r\n") {
				inQ = false
			}
			i++
			continue
		}
		if raw[i] == '\r' && i+1 < len(raw) && raw[i+1] == '\n' {
			return true
		}
		i++
	}
	return false
}

func stripTerminator(s string) string {
	if strings.HasSuffix(s, "\r\n") {
		return s[:len(s)-2]
	}
	if strings.HasSuffix(s, "\n") {
		return s[:len(s)-1]
	}
	return s
}

func c08Valid(sc *c08Scn) bool {
	ok := func(r rune) bool {
		return r != 0 && r != '"' && r != '\r' && r != '\n' && utf8.ValidRune(r) && r != utf8.RuneError
	}
	sep := c08SepRune(sc)
	if !ok(sep) {
		return false
	}
	if sc.Comment != "" {
		c, _ := utf8.DecodeRuneInString(sc.Comment)
		if !ok(c) || c == sep {
			return false
		}
	}
	return true
}

func (e c08Engine) Run(scAny any, keep bool) core.Outcome {
	sc := scAny.(*c08Scn)
	if sc.Kind == "roundtrip" {
		return c08RunRoundTrip(sc, keep)
	}
	var out core.Outcome
	data := sc.input()
	desc := func(d core.Delivery) string {
		return fmt.Sprintf("mode=%q header=%v bom=%v via_vars=%v where=%s%s%s data=%q chunks=%v eof_with_data=%v", c08ModeString(sc, true), sc.Header, sc.BOM, sc.ViaVars, sc.Where, c08ViaString(sc), c08SplitString(sc), string(sc.Data), clipInts(d.Chunks), d.EOFWithData)
	}
	if !c08Valid(sc) {
		obs := c08ExecRead(sc, data, core.Delivery{}, "", core.NewLog(false))
		out.One(1, false)
		if obs.Res.Err == nil && obs.Res.Panic == "" {
			out.Fail = &core.Failure{Oracle: "invalid-separator-accepted", Detail: desc(core.Delivery{})}
		}
		return out
	}
	refData := []byte(sc.Data)
	if !sc.BOM && bytes.HasPrefix(refData, []byte{0xEF, 0xBB, 0xBF}) {
		refData = refData[3:] // the data itself begins with a byte-order mark
	}
	ref, refErr := c08Reference(sc, refData)
	if sc.Where == "file" && sc.Split > 0 && sc.Split < len(sc.Data) {
		// two files: each is an input of its own (its own leading byte-order mark, its own end)
		strip := func(b []byte) []byte {
			if !sc.BOM && bytes.HasPrefix(b, []byte{0xEF, 0xBB, 0xBF}) {
				return b[3:]
			}
			return b
		}
		r0, e0 := c08Reference(sc, strip(sc.Data[:sc.Split]))
		r1, e1 := c08Reference(sc, strip(sc.Data[sc.Split:]))
		ref, refErr = append(r0, r1...), e0
		if refErr == nil {
			refErr = e1
		}
	}
	// header name to look up with @name: the first name that is unique in the header
	nm := ""
	if sc.Header && len(ref) > 0 {
		count := map[string]int{}
		for _, f := range ref[0].Fields {
			count[f]++
		}
		for _, f := range ref[0].Fields {
			if count[f] == 1 && f != "" {
				nm = f
				break
			}
		}
	}
	base := c08ExecRead(sc, data, core.Delivery{}, nm, nil)
	runOne := func(d core.Delivery) *core.Failure {
		log := core.NewLog(keep)
		obs := c08ExecRead(sc, data, d, nm, log)
		out.One(log.Hash(), len(obs.Recs) > 0 && len(obs.Bounds) > 1)
		out.Probe("reads", obs.Stats.Reads)
		out.Probe("zero_length_reads", obs.Stats.ZeroReads)
		out.Probe("eof_delivered_with_data", obs.Stats.EOFWithData)
		out.SimTime += int64(obs.Stats.Reads)
		if keep {
			out.Log = append(out.Log, log.Lines...)
		}
		f := c08Check(sc, d, obs, base, ref, refErr, nm, desc, &out)
		if f != nil && sc.BOM && core.IsOpen("F-C08-1") {
			// classifier of F-C08-1: the source starts with a BOM and the same scenario
			// without the BOM passes.
			c := *sc
			c.BOM = false
			c.Enum = ""
			c.D = core.Delivery{Chunks: shiftChunks(d.Chunks, 3), EOFWithData: d.EOFWithData}
			if o2 := e.Run(&c, false); o2.Fail == nil {
				f.Known = "F-C08-1"
			}
		}
		return f
	}
	if sc.Enum != "" {
		enumDeliveries(sc.Enum, len(data), func(d core.Delivery) bool {
			if f := runOne(d); f != nil {
				out.Fail = f
				c := *sc
				c.Enum = ""
				c.D = d
				out.Reduced = &c
				return false
			}
			return true
		})
		return out
	}
	out.Fail = runOne(sc.D)
	return out
}

func c08SplitString(sc *c08Scn) string {
	if sc.Where == "file" && sc.Split > 0 && sc.Split < len(sc.Data) {
		return fmt.Sprintf(" two_files_split_at=%d", sc.Split)
	}
	return ""
}

func c08ViaString(sc *c08Scn) string {
	if sc.Via == "" {
		return ""
	}
	return " via=" + sc.Via
}

// shiftChunks removes the first n bytes from a schedule.
func shiftChunks(ch []int, n int) []int {
	var out []int
	for _, c := range ch {
		if n > 0 {
			if c <= n {
				n -= c
				continue
			}
			c -= n
			n = 0
		}
		out = append(out, c)
	}
	return out
}

func c08RecsString(rs []c08Rec) string {
	var sb strings.Builder
	for i, r := range rs {
		if i > 0 {
			sb.WriteString(" ")
		}
		fmt.Fprintf(&sb, "{$0=%q fields=%q}", r.Line, r.Fields)
	}
	return "[" + sb.String() + "]"
}

func c08Check(sc *c08Scn, d core.Delivery, obs, base *c08Obs, ref []c08RefRec, refErr error, nm string, desc func(core.Delivery) string, out *core.Outcome) *core.Failure {
	if obs.Res.Panic != "" {
		return &core.Failure{Oracle: "panic", Detail: desc(d) + " panic: " + obs.Res.Panic}
	}
	if obs.Res.Err != nil {
		return &core.Failure{Oracle: "unexpected-error", Detail: desc(d) + " error: " + obs.Res.Err.Error()}
	}
	if !obs.Fin {
		return &core.Failure{Oracle: "end-not-reached", Detail: desc(d)}
	}
	// (c) delivery independence
	if base != nil && base.Res.Panic == "" && base.Res.Err == nil {
		if len(obs.Recs) != len(base.Recs) {
			return &core.Failure{Oracle: "delivery-independence", Detail: fmt.Sprintf("%s: %d records %s, one-shot delivery gives %d: %s", desc(d), len(obs.Recs), c08RecsString(obs.Recs), len(base.Recs), c08RecsString(base.Recs))}
		}
		for i := range obs.Recs {
			a, b := obs.Recs[i], base.Recs[i]
			if a.Line != b.Line || a.NF != b.NF || a.NR != b.NR || strings.Join(a.Fields, "\x00") != strings.Join(b.Fields, "\x00") || strings.Join(a.Split, "\x00") != strings.Join(b.Split, "\x00") || strings.Join(a.Re, "\x00") != strings.Join(b.Re, "\x00") {
				return &core.Failure{Oracle: "delivery-independence", Detail: fmt.Sprintf("%s: record %d is $0=%q fields=%q NR=%d, one-shot delivery gives $0=%q fields=%q NR=%d", desc(d), i+1, a.Line, a.Fields, a.NR, b.Line, b.Fields, b.NR)}
			}
		}
		if strings.Join(obs.Hdr, "\x00") != strings.Join(base.Hdr, "\x00") || strings.Join(obs.Named, "\x00") != strings.Join(base.Named, "\x00") {
			return &core.Failure{Oracle: "delivery-independence", Detail: fmt.Sprintf("%s: header %q named %q, one-shot delivery gives %q %q", desc(d), obs.Hdr, obs.Named, base.Hdr, base.Named)}
		}
	}
	if refErr != nil {
		out.Probe("reference_reader_rejected_input", 1)
		return nil
	}
	// (a) fields against the reference reader
	want := ref
	var wantHdr []string
	if sc.Header {
		if len(ref) > 0 {
			wantHdr = ref[0].Fields
			want = ref[1:]
		}
		if len(want) > 0 || len(obs.Hdr) > 0 {
			// FIELDS is observed on the first record only
			if len(want) > 0 && strings.Join(obs.Hdr, "\x00") != strings.Join(wantHdr, "\x00") {
				return &core.Failure{Oracle: "header-names", Detail: fmt.Sprintf("%s: FIELDS = %q, the header row is %q", desc(d), obs.Hdr, wantHdr)}
			}
		}
	}
	if len(obs.Recs) != len(want) {
		var ws []string
		for _, w := range want {
			ws = append(ws, fmt.Sprintf("%q", w.Fields))
		}
		return &core.Failure{Oracle: "rfc4180-fields", Detail: fmt.Sprintf("%s: %d records %s, an RFC 4180 reader gives %d: %v", desc(d), len(obs.Recs), c08RecsString(obs.Recs), len(want), ws)}
	}
	for i, w := range want {
		o := obs.Recs[i]
		if o.NR != i+1 {
			return &core.Failure{Oracle: "NR", Detail: fmt.Sprintf("%s: record %d has NR=%d", desc(d), i+1, o.NR)}
		}
		if o.NF != len(w.Fields) || strings.Join(o.Fields, "\x00") != strings.Join(w.Fields, "\x00") {
			return &core.Failure{Oracle: "rfc4180-fields", Detail: fmt.Sprintf("%s: record %d has fields %q (NF=%d), an RFC 4180 reader gives %q", desc(d), i+1, o.Fields, o.NF, w.Fields)}
		}
		// (b) $0 is the record's own text without its terminator
		wantLine := stripTerminator(w.Raw)
		if c08CRLFInsideQuotes(w.Raw, c08SepRune(sc)) {
			// a CRLF inside a quoted field: the code normalises it to LF in the field and deletes
			// CRs from $0; the statement does not say which is right, so compare modulo CR — only
			// for such records. A bare CR elsewhere is data and must stay in $0.
			if strings.ReplaceAll(o.Line, "\r", "") != strings.ReplaceAll(wantLine, "\r", "") {
				return &core.Failure{Oracle: "record-text", Detail: fmt.Sprintf("%s: $0 of record %d is %q, the record's own text is %q (compared modulo CR)", desc(d), i+1, o.Line, wantLine)}
			}
		} else if o.Line != wantLine {
			return &core.Failure{Oracle: "record-text", Detail: fmt.Sprintf("%s: $0 of record %d is %q, the record's own text is %q", desc(d), i+1, o.Line, wantLine)}
		}
		// (b') split($0, arr) and $0 = $0 parse the record's text again: the same fields, wherever
		// an RFC 4180 reader gives the text alone (with or without a final newline) exactly one
		// record - i.e. not for a quoted field that the terminator or the end of input cut short
		if o.HasSplit && !strings.Contains(o.Line, "\r") && !strings.HasPrefix(o.Line, "\xef\xbb\xbf") {
			r1, e1 := c08Reference(sc, []byte(o.Line))
			r2, e2 := c08Reference(sc, []byte(o.Line+"\n"))
			if e1 == nil && e2 == nil && len(r1) == 1 && len(r2) == 1 && strings.Join(r1[0].Fields, "\x00") == strings.Join(r2[0].Fields, "\x00") && len(r1[0].Fields) == len(r2[0].Fields) {
				wf := r1[0].Fields
				out.Probe("records_reparsed_by_split_and_assignment", 1)
				if len(o.Split) != len(wf) || strings.Join(o.Split, "\x00") != strings.Join(wf, "\x00") {
					return &core.Failure{Oracle: "split-fields", Detail: fmt.Sprintf("%s: split($0, arr) of record %d ($0=%q) gives %q, an RFC 4180 reader gives %q", desc(d), i+1, o.Line, o.Split, wf)}
				}
				if len(o.Re) != len(wf) || strings.Join(o.Re, "\x00") != strings.Join(wf, "\x00") {
					return &core.Failure{Oracle: "reparse-fields", Detail: fmt.Sprintf("%s: after $0 = $0 record %d ($0=%q) has fields %q, an RFC 4180 reader gives %q", desc(d), i+1, o.Line, o.Re, wf)}
				}
			}
		}
		if sc.Header && nm != "" {
			wantNamed := ""
			for k, h := range wantHdr {
				if h == nm && k < len(w.Fields) {
					wantNamed = w.Fields[k]
				}
			}
			if i < len(obs.Named) && obs.Named[i] != wantNamed {
				return &core.Failure{Oracle: "named-field", Detail: fmt.Sprintf("%s: @%q of record %d is %q, expected %q", desc(d), nm, i+1, obs.Named[i], wantNamed)}
			}
		}
	}
	if obs.FinNR != len(want) {
		return &core.Failure{Oracle: "NR-at-end", Detail: fmt.Sprintf("%s: NR at END is %d, expected %d", desc(d), obs.FinNR, len(want))}
	}
	out.Probe("executions_checked_against_encoding_csv", 1)
	for _, w := range want {
		if strings.Contains(w.Raw[:len(stripTerminator(w.Raw))], "\n") {
			out.Probe("records_with_line_break_inside_quotes", 1)
		}
	}
	return nil
}

// ---- W2: write -> read round trip ----

func c08RunRoundTrip(sc *c08Scn, keep bool) core.Outcome {
	var out core.Outcome
	log := core.NewLog(keep)
	desc := fmt.Sprintf("mode=%q writer=%s to_file=%v wbuf=%d crlf=%v via_vars=%v%s rows=%q", c08ModeString(sc, false), sc.Writer, sc.ToFile, sc.WBuf, sc.CRLF, sc.ViaVars, c08ViaString(sc), sc.Rows)
	if !c08Valid(sc) {
		return out
	}
	// writer
	c08rows = sc.Rows
	var src string
	if sc.Writer == "rebuild-implicit" {
		src = c08RebuildImplicitProg
	} else if sc.Writer == "rebuild" {
		src = c08RebuildProg
		if sc.ToFile {
			src = c08RebuildFileProg
		}
	} else {
		var sb strings.Builder
		sb.WriteString("BEGIN {")
		for r, row := range sc.Rows {
			sb.WriteString(" print ")
			for i := range row {
				if i > 0 {
					sb.WriteString(", ")
				}
				fmt.Fprintf(&sb, "v(%d, %d)", r+1, i+1)
			}
			if sc.ToFile {
				sb.WriteString(" > \"out\"")
			}
			sb.WriteString(";")
		}
		sb.WriteString(" }")
		src = sb.String()
	}
	prog, err := parse("c08", src, c08funcs)
	if err != nil {
		core.Fatal("C08: parse %q: %v", src, err)
	}
	sink := core.NewSimSink("stdout", log)
	cfg := &interp.Config{Stdin: nullFile(), Output: sink, Error: io.Discard, Funcs: c08funcs, Environ: []string{}, NewlineOutput: interp.RawNewlineMode}
	if sc.CRLF {
		cfg.NewlineOutput = interp.CRLFNewlineMode
	}
	if sc.Writer == "rebuild-implicit" {
		cfg.Stdin = strings.NewReader(strings.Repeat("x\n", len(sc.Rows)))
	}
	if sc.WBuf > 0 {
		cfg.Output = bufio.NewWriterSize(sink, sc.WBuf) // the interpreter flushes a *bufio.Writer at the end of the run
	}
	if sc.ViaVars {
		cfg.Vars = []string{"OUTPUTMODE", c08ModeString(sc, false)}
	} else {
		cfg.OutputMode = c08IOMode(sc.Mode)
		if sc.Sep != "" {
			cfg.CSVOutput.Separator, _ = utf8.DecodeRuneInString(sc.Sep)
		}
	}
	var wfs *core.SimFS
	if sc.ToFile {
		var ferr error
		if wfs, ferr = core.NewSimFS(scratchBase(), nil); ferr != nil {
			core.Fatal("C08: simfs: %v", ferr)
		}
		defer wfs.Remove()
		cfg.OpenFile = wfs.Open
	}
	c08cur = &c08Obs{}
	var wres execResult
	if sc.WarmMode != "" {
		it, ierr := interp.New(prog)
		if ierr != nil {
			core.Fatal("C08: New: %v", ierr)
		}
		warm := *cfg
		warm.Vars = nil
		if sc.Writer == "rebuild-implicit" {
			warm.Stdin = strings.NewReader(strings.Repeat("x\n", len(sc.Rows))) // a reader of its own
		}
		warm.Output = core.NewSimSink("warm", nil)
		warm.OutputMode, warm.CSVOutput = c08IOMode(sc.WarmMode), interp.CSVOutputConfig{}
		wr := guarded(func() (int, error) { return it.Execute(&warm) })
		if wr.Panic != "" {
			out.One(log.Hash(), true)
			out.Fail = &core.Failure{Oracle: "panic", Detail: desc + " warm-up writer panic: " + wr.Panic}
			return out
		}
		it.ResetVars()
		wres = guarded(func() (int, error) { return it.Execute(cfg) })
	} else {
		wres = execProgram(prog, cfg)
	}
	if wres.Panic != "" {
		out.One(log.Hash(), true)
		out.Fail = &core.Failure{Oracle: "panic", Detail: desc + " writer panic: " + wres.Panic}
		return out
	}
	if wres.Err != nil {
		out.One(log.Hash(), true)
		out.Fail = &core.Failure{Oracle: "unexpected-error", Detail: desc + " writer error: " + wres.Err.Error()}
		return out
	}
	wire := sink.Bytes()
	if sc.ToFile {
		if len(wire) != 0 {
			out.One(log.Hash(), true)
			out.Fail = &core.Failure{Oracle: "roundtrip", Detail: fmt.Sprintf("%s: rows printed to a file, yet standard output received %q", desc, wire)}
			return out
		}
		wire, _ = wfs.Get("out")
	}
	// reader
	rsc := *sc
	rsc.Kind, rsc.Header, rsc.Comment, rsc.Where, rsc.BOM = "input", false, "", "stdin", false
	d := sc.D
	d.Chunks = fitChunks(d.Chunks, len(wire))
	obs := c08ExecRead(&rsc, wire, d, "", log)
	quoted := bytes.IndexByte(wire, '"') >= 0
	out.One(log.Hash(), len(obs.Recs) > 0 && quoted)
	out.Probe("roundtrip_executions", 1)
	out.SimTime += int64(obs.Stats.Reads)
	if keep {
		out.Log = log.Lines
	}
	fail := func(oracle, detail string) core.Outcome {
		f := &core.Failure{Oracle: oracle, Detail: fmt.Sprintf("%s wire=%q chunks=%v: %s", desc, wire, clipInts(d.Chunks), detail)}
		if core.IsOpen("F-C08-2") {
			for _, row := range sc.Rows {
				if len(row) == 1 && len(row[0]) == 0 {
					f.Known = "F-C08-2"
				}
			}
		}
		out.Fail = f
		return out
	}
	if obs.Res.Panic != "" {
		return fail("panic", "reader panic: "+obs.Res.Panic)
	}
	if obs.Res.Err != nil {
		return fail("unexpected-error", "reader error: "+obs.Res.Err.Error())
	}
	if len(obs.Recs) != len(sc.Rows) {
		return fail("roundtrip", fmt.Sprintf("%d rows written, %d records read back: %s", len(sc.Rows), len(obs.Recs), c08RecsString(obs.Recs)))
	}
	for i, row := range sc.Rows {
		got := obs.Recs[i].Fields
		if len(got) != len(row) {
			return fail("roundtrip", fmt.Sprintf("row %d written as %q read back as %q", i+1, row, got))
		}
		for k := range row {
			if got[k] != string(row[k]) {
				return fail("roundtrip", fmt.Sprintf("row %d value %d written as %q read back as %q", i+1, k+1, string(row[k]), got[k]))
			}
		}
	}
	return out
}

// ---- shrinking ----

func (c08Engine) Shrink(scAny any) []any {
	sc := scAny.(*c08Scn)
	var out []any
	add := func(f func(c *c08Scn)) {
		c := *sc
		c.Data = append(core.Bytes(nil), sc.Data...)
		c.D.Chunks = append([]int(nil), sc.D.Chunks...)
		c.Rows = make([][]core.Bytes, len(sc.Rows))
		for i := range sc.Rows {
			c.Rows[i] = append([]core.Bytes(nil), sc.Rows[i]...)
		}
		f(&c)
		out = append(out, &c)
	}
	if sc.ViaVars {
		add(func(c *c08Scn) { c.ViaVars = false })
	}
	if sc.Where == "file" {
		add(func(c *c08Scn) {
			c.Where, c.Side = "stdin", false
			if c.Via == "getfile" {
				c.Via = ""
			}
		})
	}
	if sc.Via != "" {
		add(func(c *c08Scn) { c.Via = "" })
	}
	if sc.Split > 0 {
		add(func(c *c08Scn) { c.Split = 0 })
	}
	if sc.ToFile {
		add(func(c *c08Scn) { c.ToFile = false })
	}
	if sc.WBuf > 0 {
		add(func(c *c08Scn) { c.WBuf = 0 })
	}
	if sc.Side {
		add(func(c *c08Scn) { c.Side = false })
	}
	if sc.Header {
		add(func(c *c08Scn) { c.Header = false })
	}
	if sc.Comment != "" {
		add(func(c *c08Scn) { c.Comment = "" })
	}
	if sc.Sep != "" {
		add(func(c *c08Scn) {
			old := c.Sep
			c.Sep = ""
			def := string(c08SepRune(c))
			c.Data = bytes.ReplaceAll(c.Data, []byte(old), []byte(def))
		})
	}
	if sc.D.EOFWithData {
		add(func(c *c08Scn) { c.D.EOFWithData = false })
	}
	if sc.CRLF {
		add(func(c *c08Scn) { c.CRLF = false })
	}
	if sc.WarmMode != "" {
		add(func(c *c08Scn) { c.WarmMode = "" })
	}
	if sc.Kind == "roundtrip" {
		for i := range sc.Rows {
			i := i
			add(func(c *c08Scn) { c.Rows = append(c.Rows[:i:i], c.Rows[i+1:]...) })
			for k := range sc.Rows[i] {
				k := k
				if len(sc.Rows[i]) > 1 {
					add(func(c *c08Scn) { c.Rows[i] = append(c.Rows[i][:k:k], c.Rows[i][k+1:]...) })
				}
				for _, b := range shrinkBytes(sc.Rows[i][k]) {
					b := b
					add(func(c *c08Scn) { c.Rows[i][k] = b })
				}
			}
		}
		for _, ch := range shrinkInts(sc.D.Chunks) {
			ch := ch
			add(func(c *c08Scn) { c.D.Chunks = ch })
		}
		return out
	}
	bom := 0
	if sc.BOM {
		bom = 3
	}
	for k := 0; k < len(sc.Data) && k < 64; k++ {
		k := k
		add(func(c *c08Scn) {
			c.Data = append(append(core.Bytes(nil), sc.Data[:k]...), sc.Data[k+1:]...)
			pos := 0
			for j, ch := range c.D.Chunks {
				if k+bom < pos+ch {
					c.D.Chunks[j] = ch - 1
					break
				}
				pos += ch
			}
		})
	}
	for _, b := range shrinkBytes(sc.Data) {
		b := b
		add(func(c *c08Scn) {
			c.Data = b
			c.D.Chunks = fitChunks(c.D.Chunks, len(b)+bom)
		})
	}
	for _, ch := range shrinkInts(sc.D.Chunks) {
		ch := ch
		add(func(c *c08Scn) { c.D.Chunks = ch })
	}
	for k, b := range sc.Data {
		if b != 'x' && b != '\n' && k < 48 {
			k := k
			add(func(c *c08Scn) { c.Data[k] = 'x' })
		}
	}
	return out
}
