// Package eng holds one simulation engine per claimed property.
package eng

import (
	"bufio"
	"fmt"
	"io"
	"os"
	"path/filepath"
	"runtime/debug"
	"strings"
	"sync"

	"github.com/benhoyt/goawk/interp"
	"github.com/benhoyt/goawk/parser"
	"github.com/benhoyt/goawk/verifharness/core"
)

// progCache caches parsed programs per (source, funcs identity) inside one worker.
var (
	progMu    sync.Mutex
	progCache = map[string]*parser.Program{}
)

// parse parses src with the given native functions, caching by key (the caller guarantees
// that the same key always comes with the same funcs map).
func parse(key, src string, funcs map[string]any) (*parser.Program, error) {
	progMu.Lock()
	defer progMu.Unlock()
	k := key + "\x00" + src
	if p, ok := progCache[k]; ok {
		return p, nil
	}
	p, err := parser.ParseProgram([]byte(src), &parser.ParserConfig{Funcs: funcs})
	if err != nil {
		return nil, err
	}
	if len(progCache) > 5000 {
		progCache = map[string]*parser.Program{}
	}
	progCache[k] = p
	return p, nil
}

// execResult is the outcome of one call into the interpreter.
type execResult struct {
	Status int
	Err    error
	Panic  string // non-empty if the interpreter panicked
}

func (r execResult) errString() string {
	if r.Err == nil {
		return ""
	}
	return r.Err.Error()
}

// guarded runs f (a call into the system under test) and converts a panic into a result.
func guarded(f func() (int, error)) (res execResult) {
	defer func() {
		if r := recover(); r != nil {
			st := string(debug.Stack())
			// keep the part of the stack that is inside goawk
			var keep []string
			for _, l := range strings.Split(st, "\n") {
				if strings.Contains(l, "goawk/interp") || strings.Contains(l, "goawk/internal") || strings.Contains(l, "goawk/parser") {
					keep = append(keep, strings.TrimSpace(l))
					if len(keep) > 6 {
						break
					}
				}
			}
			res.Panic = fmt.Sprintf("%v @ %s", r, strings.Join(keep, " | "))
		}
	}()
	st, err := f()
	return execResult{Status: st, Err: err}
}

func execProgram(prog *parser.Program, cfg *interp.Config) execResult {
	return guarded(func() (int, error) { return interp.ExecProgram(prog, cfg) })
}

// scratchBase is a per-process directory for simulated file systems (tmpfs if available).
var (
	scratchOnce sync.Once
	scratchDir  string
)

func scratchBase() string {
	scratchOnce.Do(func() {
		base := os.Getenv("VERIF_SCRATCH")
		if shm := os.Getenv("VERIF_SHM"); shm != "" {
			base = shm // a directory of the caller in /dev/shm, removed by the caller
		} else if st, err := os.Stat("/dev/shm"); err == nil && st.IsDir() {
			base = "/dev/shm"
		}
		if base == "" {
			base = os.TempDir()
		}
		d, err := os.MkdirTemp(base, "verif-simfs")
		if err != nil {
			core.Fatal("scratch dir: %v", err)
		}
		scratchDir = d
	})
	return scratchDir
}

// CleanupScratch removes the per-process scratch directory.
func CleanupScratch() {
	if scratchDir != "" {
		_ = os.RemoveAll(scratchDir)
	}
}

func simshPath() string {
	if p := os.Getenv("VERIF_SIMSH"); p != "" {
		return p
	}
	exe, _ := os.Executable()
	return filepath.Join(filepath.Dir(exe), "simsh")
}

// nullFile returns a fresh handle on /dev/null: a real *os.File, so that os/exec starts no
// stdin copier goroutine for children, and fresh because the interpreter closes its input.
func nullFile() *os.File {
	f, err := os.Open("/dev/null")
	if err != nil {
		core.Fatal("open /dev/null: %v", err)
	}
	return f
}

// compositions calls f with every composition (ordered list of positive parts) of n.
func compositions(n int, f func(parts []int) bool) {
	if n <= 0 {
		f(nil)
		return
	}
	for mask := 0; mask < 1<<(n-1); mask++ {
		parts := make([]int, 0, n)
		run := 1
		for b := 0; b < n-1; b++ {
			if mask&(1<<b) != 0 {
				parts = append(parts, run)
				run = 1
			} else {
				run++
			}
		}
		parts = append(parts, run)
		if !f(parts) {
			return
		}
	}
}

// shrinkInts proposes simpler variants of an int list: drop halves, drop single elements,
// merge neighbours.
func shrinkInts(xs []int) [][]int {
	var out [][]int
	if len(xs) == 0 {
		return out
	}
	out = append(out, nil)
	if len(xs) > 1 {
		out = append(out, append([]int(nil), xs[:len(xs)/2]...), append([]int(nil), xs[len(xs)/2:]...))
	}
	for i := range xs {
		c := append(append([]int(nil), xs[:i]...), xs[i+1:]...)
		out = append(out, c)
	}
	for i := 0; i+1 < len(xs); i++ {
		c := append([]int(nil), xs[:i]...)
		c = append(c, xs[i]+xs[i+1])
		c = append(c, xs[i+2:]...)
		out = append(out, c)
	}
	return out
}

// shrinkBytes proposes simpler variants of a byte string.
func shrinkBytes(b []byte) [][]byte {
	var out [][]byte
	n := len(b)
	if n == 0 {
		return out
	}
	if n > 1 {
		out = append(out, append([]byte(nil), b[:n/2]...), append([]byte(nil), b[n/2:]...))
	}
	if n > 8 {
		q := n / 4
		for i := 0; i < 4; i++ {
			c := append(append([]byte(nil), b[:i*q]...), b[(i+1)*q:]...)
			out = append(out, c)
		}
	}
	limit := n
	if limit > 64 {
		limit = 64
	}
	for i := 0; i < limit; i++ {
		c := append(append([]byte(nil), b[:i]...), b[i+1:]...)
		out = append(out, c)
	}
	return out
}

// newBufWriter wraps w the way the goawk CLI wraps stdout.
func newBufWriter(w io.Writer, size int) *bufio.Writer { return bufio.NewWriterSize(w, size) }
