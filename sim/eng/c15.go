package eng

import (
	"bytes"
	"context"
	"errors"
	"fmt"
	"io"
	"os"
	"runtime"
	"strings"
	"time"

	"github.com/benhoyt/goawk/interp"
	"github.com/benhoyt/goawk/verifharness/core"
)

// ---------------------------------------------------------------------------------------
// C15 — cancellation stops execution promptly and is otherwise invisible.
// ---------------------------------------------------------------------------------------

// c15Bound is B_steps of DESIGN.md 5.7: "about a thousand" with slack for a re-tuned poll
// interval; it is stated here, not read from the code.
const c15Bound = 2000

type c15Scn struct {
	Arch  string `json:"arch"`
	N     int    `json:"n"`
	Depth int    `json:"depth,omitempty"`
	Lines int    `json:"lines,omitempty"`
	// Cancel: never | step | script | pre | blocked | enum (every step of the run)
	Cancel     string `json:"cancel"`
	CancelStep int    `json:"cancel_step,omitempty"`
	CancelTick int    `json:"cancel_tick,omitempty"`
	Deadline   bool   `json:"deadline,omitempty"` // DeadlineExceeded instead of Canceled
	Stride     int    `json:"stride,omitempty"`   // enum: step stride (1 = every step)
	Buffered   bool   `json:"buffered,omitempty"` // Config.Output wrapped in a bufio.Writer like the CLI
	// Warm: the Interpreter is reused: a first ExecuteContext with a context that is never
	// closed runs to completion before the measured call
	Warm bool `json:"warm,omitempty"`
	// StdCtx: a standard-library context (WithCancelCause) instead of SimContext; the simulator
	// still closes it at the chosen instant, with a cause that differs from ctx.Err()
	StdCtx bool `json:"std_ctx,omitempty"`
	// StdFarDeadline (with StdCtx): the context also has a deadline an hour away; it is still
	// closed by the simulator (cancelled early, as when a parent request is cancelled)
	StdFarDeadline bool `json:"std_far_deadline,omitempty"`
}

var c15Progs = map[string]string{
	"while":        `BEGIN { while (i < N) { i++; tick(i); x = x + i * 2; if (i % 5 == 0) print "s" i / 5 } print "end" }`,
	"for":          `BEGIN { for (i = 1; i <= N; i++) { tick(i); x = x + i * 2 } print x }`,
	"recursion":    `function r(n) { tick(n); if (n > 0) return r(n - 1) + 1; return 0 } BEGIN { for (j = 0; j < N; j++) s += r(D); print s }`,
	"forin":        `BEGIN { for (i = 0; i < N; i++) a[i] = i; for (k in a) { c++; tick(c) } print c }`,
	"forin-nobody": `BEGIN { for (i = 0; i < N; i++) a[i] = i; for (j = 0; j < 50; j++) { for (k in a) {}; tick(j) } print "done" }`,
	"forin-nested": `function f(arr,   k, n) { for (k in arr) { n++; tick(n) } return n } BEGIN { for (i = 0; i < N; i++) a[i] = i; for (k in a) { t += f(a); if (t > N * 4) break } print t }`,
	"records":      `{ n++; tick(n); s += $1 } END { print n, s }`,
	"patterns": `function f(x) { tick(x); return x % 2 } f(NR) { m++ }
$1 > 3
END { print m }`,
	"pattern-only": `$1 % 3 == 0`,
	"print-all":    `1`,
	"print-all-end": `1
END { print NR }`,
	"stdin-share": `BEGIN { system(cmdline1); tick(1) }
{ print "awk:" $0; tick(NR + 1) }`,
	"range":              `$1 == 2, $1 == 5 { tick(NR) } END { print NR }`,
	"end":                `END { for (i = 1; i <= N; i++) { tick(i); print "s" i } }`,
	"outputs":            `BEGIN { for (i = 1; i <= N; i++) { print "s" i; print "f" i > "out1"; print "c" i | cmd; tick(i) } }`,
	// cheap I/O builtins in a tight loop (no child, no file): D filler instructions per iteration
	// vary how the iteration's instruction count lines up with whatever poll interval is in use
	"io-builtins": `BEGIN { for (i = 1; i <= N; i++) { tick(i); fflush(); close("nofile"); r = (getline line < "missing"); for (j = 0; j < D; j++) x++ } print i }`,
	"getline-file":       `BEGIN { while ((getline line < "in1") > 0) { n++; tick(n) } for (i = 0; i < N; i++) { tick(n + i) } print n }`,
	"system-loop":        `BEGIN { for (i = 1; i <= N; i++) { r = system(cmdexit); print "s" i; tick(i) } }`,
	"getline-cmd":        `BEGIN { while ((cmdlines | getline line) > 0) { n++; print "s" n; tick(n) } close(cmdlines); for (i = 0; i < 100000; i++) x++ }`,
	"big-to-cmd":         `BEGIN { big = sprintf("%70000s", "x"); for (i = 1; i <= N; i++) { printf "%s", big | cmd; tick(i); for (j = 0; j < 30; j++) x++ } }`,
	"blocked-grandchild": `BEGIN { print "s1"; tick(1); r = system(cmdspawn); tick(2); for (i = 0; i < 100000; i++) x++ }`,
	"blocked-system":     `BEGIN { print "s1"; tick(1); r = system(cmdhang); tick(2); for (i = 0; i < 100000; i++) x++ }`,
	"blocked-close":      `BEGIN { print "s1"; print "c1" | cmdhang; tick(1); close(cmdhang); tick(2); for (i = 0; i < 100000; i++) x++ }`,
	"blocked-getline":    `BEGIN { print "s1"; tick(1); cmdhang | getline x; tick(2); for (i = 0; i < 100000; i++) x++ }`,
	// blocked in a write: the command never reads, 300 000 bytes do not fit the pipe; the
	// cancellation kills the command, the write fails with EPIPE - the call must still return the
	// context's error
	"blocked-bigprint": `BEGIN { print "s1"; big = sprintf("%300000s", "x"); tick(1); printf "%s", big | cmdhang; tick(2); for (i = 0; i < 100000; i++) x++ }`,
	// the command spawns a grandchild that keeps the pipe open, then both hang: killing the
	// command does not end the read (WaitDelay must)
	"blocked-getline-grandchild": `BEGIN { print "s1"; print "f1" > "out1"; tick(1); cmdspawn | getline x; tick(2); for (i = 0; i < 100000; i++) x++ }`,
	// never cancelled, standard output fails while a system() child's output is copied to it
	"system-sinkfail": `BEGIN { r = system(cmdemit); printf "r=%s\n", r > "out1"; close("out1"); tick(1); print "after" }`,
}

var c15Archs = []string{"print-all", "print-all-end", "while", "for", "recursion", "forin", "forin-nobody", "forin-nested", "records", "patterns", "pattern-only", "range", "end", "outputs", "getline-file", "io-builtins"}
var c15ChildArchs = []string{"stdin-share", "system-loop", "getline-cmd", "big-to-cmd", "blocked-system", "blocked-close", "blocked-getline", "blocked-bigprint", "blocked-grandchild", "blocked-getline-grandchild", "system-sinkfail"}

// c15Ctx is a context the simulator can close at an instant of its choosing.
type c15Ctx interface {
	context.Context
	Cancel(err error)
	Cancelled() bool
}

// c15StdCtx is a standard-library context created with WithCancelCause: its Err() is
// context.Canceled while context.Cause() is a different, caller-supplied error.
type c15StdCtx struct {
	context.Context
	cancel context.CancelCauseFunc
}

func newC15StdCtx(farDeadline bool) *c15StdCtx {
	parent := context.Background()
	if farDeadline {
		// (the timer is released when the cancel function runs; never-cancelled runs leave a
		// one-hour timer behind, which the process does not outlive)
		parent, _ = context.WithDeadline(parent, time.Now().Add(time.Hour)) //nolint:govet
	}
	ctx, cancel := context.WithCancelCause(parent)
	return &c15StdCtx{ctx, cancel}
}
func (c *c15StdCtx) Cancel(err error) { c.cancel(errors.New("request budget used up")) }
func (c *c15StdCtx) Cancelled() bool  { return c.Err() != nil }

type c15State struct {
	ticks      int
	ctx        c15Ctx
	cancelTick int
	cancelErr  error
	onCancel   func()
}

var c15cur *c15State

var c15funcs = map[string]any{
	"tick": func(id int) int {
		st := c15cur
		st.ticks++
		if st.ctx != nil && st.cancelTick > 0 && st.ticks == st.cancelTick && !st.ctx.Cancelled() {
			st.onCancel()
			st.ctx.Cancel(st.cancelErr)
		}
		return 1
	},
}

type c15Result struct {
	Stdout, Files  string
	Stderr         string
	FilesAtReturn  string // blocked archetypes: the files at the instant the call returned
	Status         int
	Err            error
	Panic          string
	Steps          int // VM steps when the call returned
	StepsAtCancel  int // VM steps when the context was closed (-1: never)
	WritesAtCancel int // Write calls on standard output when the context was closed
	Writes         int // Write calls on standard output when the call returned
	TicksAtCancel  int
	Aborted        bool // the hook aborted a run that ignored the cancellation
	ChildSaved     string
	Blocked        string // blocked archetypes: how the wait ended
}

type c15Engine struct{}

func init() { core.Register(c15Engine{}) }

func (c15Engine) ID() string               { return "C15" }
func (c15Engine) Level(tier string) string { return "fault_enumeration" }
func (c15Engine) Rule() string {
	return "scenario = (program archetype with a native tick() in its hot path: while/for loops, recursion to depth 50-900, for-in over 10^2-10^5 elements with/without body and nested in calls, per-record rules, pattern-only rules, range patterns, functions called from patterns, END loops, output to stdout+file+command, getline from a file, loops around system()/cmd|getline, and system/close/getline blocked on a hanging child; size; cancellation instant). The instant is a VM step index (hook H1 closes the SimContext between two instructions), a script-chosen tick, before the start, never, or - for children - the moment the stub child reports that it hangs; 'enum' scenarios cancel at every step (stride 1 in the thorough tier) of a short run. One evaluation = one ExecuteContext call. Distinct = distinct event-log hash; non-trivial = the context was closed while the program was still running."
}
func (c15Engine) Assumptions() []string {
	return []string{
		fmt.Sprintf("promptness bound B_steps = %d VM steps between closing the context and the return (the statement says 'about a thousand')", c15Bound),
		"steps are counted by hook H1 (one per dispatched VM instruction), never by wall time; a blocked-on-child wait is given 20 s of real time before it counts as not interrupted",
	}
}
func (c15Engine) Components() map[string]string {
	return map[string]string{
		"ExecuteContext, context polling in the VM, exec.CommandContext, closeAll": "real",
		"context": "stub (SimContext)", "stdout": "stub (SimSink, optionally behind a real bufio.Writer)", "files": "real files behind Config.OpenFile (SimFS)",
		"child processes": "real processes running stub simsh; the hanging ones are paced through the control socket",
	}
}
func (c15Engine) Count(tier string) int {
	if tier == "thorough" {
		return 40000
	}
	return 1500
}
func (c15Engine) BudgetS(tier string) int {
	if tier == "thorough" {
		return 900
	}
	return 50
}
func (c15Engine) Workers(tier string) int { return 0 }
func (c15Engine) NewScenario() any        { return &c15Scn{} }

func (c15Engine) Gen(r *core.Rand, tier string, i int) any {
	sc := &c15Scn{}
	sc.Buffered = r.Chance(1, 3)
	sc.Warm = r.Chance(1, 5)
	sc.StdCtx = r.Chance(1, 4)
	sc.StdFarDeadline = sc.StdCtx && r.Bool()
	if r.Chance(1, 14) {
		sc.Arch = core.Pick(r, c15ChildArchs)
		sc.N = r.Range(2, 8)
		sc.Deadline = r.Chance(1, 4)
		if strings.HasPrefix(sc.Arch, "blocked") {
			sc.Cancel = "blocked"
			return sc
		}
		sc.Cancel = core.Pick(r, []string{"never", "script", "script", "step"})
		if sc.Arch == "stdin-share" || sc.Arch == "system-sinkfail" {
			sc.Cancel = "never" // "a context that is never cancelled behaves exactly like Execute"
		}
		sc.CancelTick = r.Range(1, sc.N)
		sc.CancelStep = r.Range(1, sc.N*12)
		return sc
	}
	sc.Arch = core.Pick(r, c15Archs)
	sc.N = r.Range(1, 3000)
	sc.Depth = core.Pick(r, []int{5, 50, 200, 900})
	sc.Lines = r.Range(0, 1500)
	sc.Deadline = r.Chance(1, 4)
	switch sc.Arch {
	case "print-all", "print-all-end":
		sc.Lines = r.Range(2500, 6000)
	case "recursion":
		sc.N = r.Range(1, 2+8000/(sc.Depth+1))
	case "forin", "forin-nobody":
		sc.N = core.Pick(r, []int{10, 1000, 3000, 20000})
		if r.Chance(1, 10) {
			sc.N = 100000
		}
	case "forin-nested":
		sc.N = r.Range(2, 60)
	case "outputs":
		sc.N = r.Range(1, 200)
	case "io-builtins":
		sc.Depth = r.Range(0, 40)
	}
	switch r.Intn(20) {
	case 0, 1:
		sc.Cancel = "never"
	case 2:
		sc.Cancel = "pre"
	case 3, 4, 5, 6:
		sc.Cancel = "script"
		sc.CancelTick = r.Range(1, 1200)
	case 7, 8:
		sc.Cancel = "enum"
		sc.Stride = 37
		if tier == "thorough" {
			sc.Stride = core.Pick(r, []int{1, 1, 3, 11})
		}
		// keep enumerated runs short
		sc.N = r.Range(1, 120)
		sc.Lines = r.Range(0, 60)
		if sc.Arch == "recursion" {
			sc.Depth = core.Pick(r, []int{3, 20, 60})
			sc.N = r.Range(1, 4)
		}
		if strings.HasPrefix(sc.Arch, "forin") {
			sc.N = r.Range(2, 40)
		}
	default:
		sc.Cancel = "step"
		sc.CancelStep = r.Range(1, 30000)
		if r.Chance(1, 3) {
			sc.CancelStep = r.Range(1, 300)
		}
	}
	return sc
}

func c15Input(lines int) []byte {
	var b bytes.Buffer
	for i := 1; i <= lines; i++ {
		fmt.Fprintf(&b, "%d x%d\n", i%7, i)
	}
	return b.Bytes()
}

// c15Exec runs the scenario's program once. mode: "plain" = Execute; otherwise
// ExecuteContext with the given cancellation.
func c15Exec(sc *c15Scn, cancel string, cancelStep, cancelTick int, log *core.Log) *c15Result {
	res := &c15Result{StepsAtCancel: -1}
	st := &c15State{}
	c15cur = st
	src, ok := c15Progs[sc.Arch]
	if !ok {
		core.Fatal("C15: unknown archetype %q", sc.Arch)
	}
	prog, err := parse("c15", src, c15funcs)
	if err != nil {
		core.Fatal("C15: parse %s: %v", sc.Arch, err)
	}
	fs, err := core.NewSimFS(scratchBase(), nil)
	if err != nil {
		core.Fatal("C15: simfs: %v", err)
	}
	defer fs.Remove()
	_ = fs.Put("in1", c15Input(40))
	sink := core.NewSimSink("stdout", nil)
	var stdin io.Reader = bytes.NewReader(c15Input(sc.Lines))
	if sc.Arch == "stdin-share" {
		// a real file: the child started by system() shares the descriptor (and its offset)
		_ = fs.Put("!stdin", []byte("one\ntwo\nthree\n"))
		f, ferr := os.Open(fs.Path("!stdin"))
		if ferr != nil {
			core.Fatal("C15: stdin file: %v", ferr)
		}
		_ = os.Remove(fs.Path("!stdin"))
		stdin = f
	}
	errSink := core.NewSimSink("stderr", nil)
	if sc.Arch == "system-sinkfail" {
		sink.FailAt = 3 + sc.N
	}
	cfg := &interp.Config{
		Stdin: stdin, Output: sink, Error: errSink, Funcs: c15funcs, Environ: []string{},
		OpenFile: fs.Open, NewlineOutput: interp.RawNewlineMode,
		Vars: []string{"N", fmt.Sprint(sc.N), "D", fmt.Sprint(sc.Depth)},
	}
	var flush func()
	if sc.Buffered {
		bw := newBufWriter(sink, 4096)
		cfg.Output = bw
		flush = func() {}
		_ = flush
	}
	childArch := false
	for _, a := range c15ChildArchs {
		childArch = childArch || a == sc.Arch
	}
	var srv *core.ChildServer
	sockArg := "-"
	if sc.Cancel == "blocked" {
		srv, err = core.NewChildServer(fs.Dir)
		if err != nil {
			core.Fatal("C15: child server: %v", err)
		}
		defer srv.Close()
		sockArg = srv.Path
	}
	if childArch || sc.Arch == "outputs" {
		cfg.ShellCommand = []string{simshPath(), sockArg}
		var lines strings.Builder
		for i := 1; i <= sc.N; i++ {
			fmt.Fprintf(&lines, "l%d\n", i)
		}
		cfg.Vars = append(cfg.Vars, "cmd", "co;save:"+fs.Path("cmdsaved"), "cmdexit", "ce;exit:0",
			"cmdlines", "cl;emit:"+lines.String()+";exit:0", "cmdemit", "em;emit:"+lines.String()+lines.String()+";exit:0", "cmdhang", "h;hang", "cmdspawn", "h;spawn:g;hang", "cmdline1", "l1;line1;exit:0")
	}
	var ctx c15Ctx
	cerr := context.Canceled
	if sc.Deadline {
		cerr = context.DeadlineExceeded
	}
	steps := 0
	markCancel := func() {
		res.StepsAtCancel = steps
		res.TicksAtCancel = st.ticks
		res.WritesAtCancel = sink.Writes
	}
	if cancel != "plain" {
		ctx = core.NewSimContext()
		if sc.StdCtx && !sc.Deadline {
			ctx = newC15StdCtx(sc.StdFarDeadline)
		}
		st.ctx, st.cancelErr, st.onCancel = ctx, cerr, markCancel
		if cancel == "script" {
			st.cancelTick = cancelTick
		}
		if cancel == "pre" {
			markCancel()
			ctx.Cancel(cerr)
		}
	}
	const hardCap = 60 * c15Bound
	interp.VerifStep = func(kind interp.VerifStepKind) {
		steps++
		if ctx != nil && cancel == "step" && steps == cancelStep && !ctx.Cancelled() {
			markCancel()
			ctx.Cancel(cerr)
		}
		if res.StepsAtCancel >= 0 && steps > res.StepsAtCancel+hardCap {
			res.Aborted = true
			panic("verif: run ignored the cancelled context for more than 60x the bound")
		}
		if steps > 3_000_000 {
			// every archetype is bounded (the longest takes well under a million steps)
			panic("verif: the run was still executing after 3 million VM steps")
		}
	}
	defer func() { interp.VerifStep = nil }()
	if !childArch && sc.Arch != "outputs" {
		// One P: the interpreter's goroutine is the only one that must make progress; an
		// implementation that relies on some other goroutine noticing the cancellation gets no
		// help from a lucky scheduler (and the run does not depend on the machine's load).
		defer runtime.GOMAXPROCS(runtime.GOMAXPROCS(1))
	}
	it, err := interp.New(prog)
	if err != nil {
		core.Fatal("C15: New: %v", err)
	}
	if sc.Warm && cancel != "plain" && !childArch {
		// reuse: a complete earlier run under another context that is never closed
		warmCfg := *cfg
		warmCfg.Stdin = bytes.NewReader(c15Input(sc.Lines))
		warmCfg.Output = core.NewSimSink("warm", nil)
		wfs, werr := core.NewSimFS(scratchBase(), nil)
		if werr != nil {
			core.Fatal("C15: simfs: %v", werr)
		}
		_ = wfs.Put("in1", c15Input(40))
		warmCfg.OpenFile = wfs.Open
		hook := interp.VerifStep
		interp.VerifStep = nil
		st.ctx = nil
		wr := guarded(func() (int, error) { return it.ExecuteContext(core.NewSimContext(), &warmCfg) })
		wfs.Remove()
		if wr.Panic != "" {
			res.Panic = "warm-up run: " + wr.Panic
		}
		interp.VerifStep = hook
		st.ticks = 0
		st.ctx = ctx
		it.ResetVars()
	}
	run := func() execResult {
		return guarded(func() (int, error) {
			if ctx != nil {
				return it.ExecuteContext(ctx, cfg)
			}
			return it.Execute(cfg)
		})
	}
	var r execResult
	if cancel == "blocked" {
		done := make(chan execResult, 1)
		go func() { done <- run() }()
		child := srv.WaitChild("h", 20*time.Second)
		if child == nil {
			select {
			case r = <-done:
				res.Blocked = "program returned before the child started"
			case <-time.After(time.Second):
				core.Fatal("C15: hanging child never started (%s)", sc.Arch)
			}
		} else {
			// release every step of the child (and of a grandchild it spawns) until all hang
			need := 1
			if strings.Contains(src, "cmdspawn") {
				need = 2
			}
			child.Go() // past hello
			hanging := 0
			deadline := time.After(20 * time.Second)
			for hanging < need {
				select {
				case ev := <-srv.Events:
					switch {
					case ev.Child == child && strings.HasPrefix(ev.Msg, "hello "):
					case strings.HasPrefix(ev.Msg, "hello "), strings.HasPrefix(ev.Msg, "at "):
						ev.Child.Go()
					case ev.Msg == "hanging":
						hanging++
					case ev.Msg == "EOF":
						core.Fatal("C15: child %s died before hanging", ev.Child.Name)
					}
				case <-deadline:
					core.Fatal("C15: children did not reach their hang step (%d of %d)", hanging, need)
				}
			}
			// The interpreter is now waiting for the child (or about to). Close the context.
			time.Sleep(2 * time.Millisecond)
			markCancel()
			ctx.Cancel(cerr)
			select {
			case r = <-done:
				res.Blocked = "returned after cancellation"
			case <-time.After(10 * time.Second):
				// not interrupted: let the child die so that the run can end, and report
				srv.KillAll()
				r = <-done
				res.Blocked = "NOT interrupted: the call returned only after the simulator killed the child itself"
			}
			// nothing of the interpreter may still be executing once the call has returned
			atReturn := steps
			res.FilesAtReturn = core.SnapshotString(fs.Snapshot())
			time.Sleep(400 * time.Millisecond)
			if steps != atReturn {
				res.Blocked += fmt.Sprintf("; the interpreter executed %d more VM steps after the call had returned", steps-atReturn)
			}
			if m, ok := child.WaitMsg("EOF", 5*time.Second); !ok || m != "EOF" {
				res.Blocked += "; child still alive after the call returned"
				srv.KillAll()
			}
		}
	} else {
		r = run()
	}
	res.Status, res.Err, res.Panic = r.Status, r.Err, r.Panic
	if res.Aborted {
		res.Panic = ""
	}
	res.Steps = steps
	res.Writes = sink.Writes
	res.Stdout = sink.String()
	res.Stderr = errSink.String()
	if b, ok := fs.Get("cmdsaved"); ok {
		res.ChildSaved = string(b)
	}
	snap := fs.Snapshot()
	delete(snap, "cmdsaved")
	res.Files = core.SnapshotString(snap)
	log.Addf("%s n=%d cancel=%s@%d/%d -> steps=%d at_cancel=%d status=%d err=%v panic=%q aborted=%v stdout=%x files=%x blocked=%q",
		sc.Arch, sc.N, cancel, cancelStep, cancelTick, res.Steps, res.StepsAtCancel, res.Status, res.Err, res.Panic, res.Aborted,
		core.HashString(res.Stdout), core.HashString(res.Files), res.Blocked)
	return res
}

// c15Tokens checks that s is exactly prefix+"1\n"+prefix+"2\n"... and returns the count (-1 if malformed).
func c15Tokens(s, prefix string) int {
	n := 0
	for len(s) > 0 {
		want := fmt.Sprintf("%s%d\n", prefix, n+1)
		if !strings.HasPrefix(s, want) {
			return -1
		}
		s = s[len(want):]
		n++
	}
	return n
}

func (e c15Engine) Run(scAny any, keep bool) core.Outcome {
	sc := scAny.(*c15Scn)
	var out core.Outcome
	desc := func(cancel string, step, tick int) string {
		return fmt.Sprintf("arch=%s N=%d depth=%d lines=%d buffered=%v cancel=%s step=%d tick=%d deadline=%v", sc.Arch, sc.N, sc.Depth, sc.Lines, sc.Buffered, cancel, step, tick, sc.Deadline)
	}
	wantErr := error(context.Canceled)
	if sc.Deadline {
		wantErr = context.DeadlineExceeded
	}
	check := func(cancel string, step, tick int, plain *c15Result) *core.Failure {
		log := core.NewLog(keep)
		res := c15Exec(sc, cancel, step, tick, log)
		cancelledWhileRunning := res.StepsAtCancel >= 0 && res.StepsAtCancel < res.Steps
		out.One(log.Hash(), cancelledWhileRunning || cancel == "blocked")
		out.SimTime += int64(res.Steps)
		if keep {
			out.Log = append(out.Log, log.Lines...)
		}
		d := desc(cancel, step, tick)
		if res.Panic != "" {
			return &core.Failure{Oracle: "panic", Detail: d + ": " + res.Panic}
		}
		if res.StepsAtCancel < 0 {
			// never cancelled: must be invisible
			out.Probe("runs_context_never_closed", 1)
			if plain != nil {
				if res.Stdout != plain.Stdout || res.Status != plain.Status || fmt.Sprint(res.Err) != fmt.Sprint(plain.Err) || res.Files != plain.Files || res.ChildSaved != plain.ChildSaved || res.Stderr != plain.Stderr {
					return &core.Failure{Oracle: "invisible-when-unused", Detail: fmt.Sprintf("%s: ExecuteContext with a context that is never cancelled gives status=%d err=%v stdout=%q files=%s stderr=%q, Execute gives status=%d err=%v stdout=%q files=%s stderr=%q",
						d, res.Status, res.Err, clip(res.Stdout, 200), clip(res.Files, 200), clip(res.Stderr, 200), plain.Status, plain.Err, clip(plain.Stdout, 200), clip(plain.Files, 200), clip(plain.Stderr, 200))}
				}
			}
			return nil
		}
		out.Probe("fault:context_closed", 1)
		after := res.Steps - res.StepsAtCancel
		if cancelledWhileRunning {
			out.Probe("cancel_landed_while_running", 1)
		}
		if cancel == "blocked" {
			out.Probe("cancel_while_blocked_on_child", 1)
			if !strings.HasPrefix(res.Blocked, "returned after cancellation") || strings.Contains(res.Blocked, "still alive") || strings.Contains(res.Blocked, "more VM steps") {
				return &core.Failure{Oracle: "blocked-on-child", Detail: d + ": " + res.Blocked}
			}
		}
		// (2) prompt
		if res.Aborted || after > c15Bound {
			return &core.Failure{Oracle: "prompt", Detail: fmt.Sprintf("%s: context closed at VM step %d, the call was still running %d steps later (bound %d)%s", d, res.StepsAtCancel, after, c15Bound,
				map[bool]string{true: " and was aborted by the harness", false: ""}[res.Aborted])}
		}
		// (2b) work done outside the instruction loop counts too: every record printed after
		// the close is at least one interpreter step, so the writes to standard output after the
		// close are bounded as well (two per printed line)
		if w := res.Writes - res.WritesAtCancel; w > 2*c15Bound+2 {
			return &core.Failure{Oracle: "prompt", Detail: fmt.Sprintf("%s: context closed after %d writes to standard output, %d more followed (bound %d steps)", d, res.WritesAtCancel, w, c15Bound)}
		}
		// (3) identity
		if res.Err != nil && res.Err != wantErr {
			return &core.Failure{Oracle: "identity", Detail: fmt.Sprintf("%s: the call returned error %q, the context's error is %q", d, res.Err, wantErr)}
		}
		if res.Err == nil && cancel == "blocked" {
			// every blocked archetype has a 100 000-iteration loop left after the wait: it cannot
			// have finished by itself within the bound
			return &core.Failure{Oracle: "identity", Detail: fmt.Sprintf("%s: the context was closed while the program waited, far more than %d steps of work remained, yet the call returned no error (status %d)", d, c15Bound, res.Status)}
		}
		if res.Err == nil {
			out.Probe("program_finished_by_itself_within_bound", 1)
		} else {
			out.Probe("returned_context_error", 1)
		}
		// (5) delivered: tokens printed by iterations that completed before the cancellation
		switch sc.Arch {
		case "outputs":
			k := res.TicksAtCancel
			body := res.Stdout
			ns, nf, nc := c15Tokens(body, "s"), -1, c15Tokens(res.ChildSaved, "c")
			files := res.Files
			// out1 content is inside the snapshot string; extract it
			fcontent := ""
			if i := strings.Index(files, `"out1"="`); i >= 0 {
				rest := files[i+len(`"out1"="`):]
				if j := strings.Index(rest, `";`); j >= 0 {
					fcontent = strings.ReplaceAll(rest[:j], `\n`, "\n")
				}
			}
			nf = c15Tokens(fcontent, "f")
			// The command is started with exec.CommandContext, so closing the context may
			// kill it before it has consumed its input: for that destination only
			// well-formedness (a prefix, never garbage) is required.
			if ns < k || nf < k || nc < 0 {
				return &core.Failure{Oracle: "delivered", Detail: fmt.Sprintf("%s: %d iterations had completed when the context was closed, but stdout holds %d tokens, file out1 %d, the command received %d (-1 = malformed): stdout=%q out1=%q cmd=%q",
					d, k, ns, nf, nc, clip(body, 120), clip(fcontent, 120), clip(res.ChildSaved, 120))}
			}
			out.Probe("delivery_checked_after_cancel", 1)
		case "while", "end", "system-loop", "getline-cmd":
			k := res.TicksAtCancel
			switch sc.Arch {
			case "while": // tick(i) precedes the print of iteration i
				k = (k - 1) / 5
			case "end":
				k = k - 1
			}
			ns := c15Tokens(strings.TrimSuffix(res.Stdout, "end\n"), "s")
			if ns < k {
				return &core.Failure{Oracle: "delivered", Detail: fmt.Sprintf("%s: %d prints had completed when the context was closed, stdout holds %d tokens (-1 = malformed): %q", d, k, ns, clip(res.Stdout, 200))}
			}
			out.Probe("delivery_checked_after_cancel", 1)
		case "blocked-system", "blocked-close", "blocked-getline", "blocked-bigprint", "blocked-getline-grandchild", "blocked-grandchild":
			if !strings.HasPrefix(res.Stdout, "s1\n") {
				return &core.Failure{Oracle: "delivered", Detail: fmt.Sprintf("%s: 's1' was printed before the wait but stdout is %q", d, res.Stdout)}
			}
			if sc.Arch == "blocked-getline-grandchild" && strings.HasPrefix(res.Blocked, "returned after cancellation") && !strings.Contains(res.FilesAtReturn, `"out1"="f1\n"`) {
				return &core.Failure{Oracle: "delivered", Detail: fmt.Sprintf("%s: 'f1' was printed to the file out1 before the wait but when the call returned the files were %s", d, res.FilesAtReturn)}
			}
		}
		return nil
	}

	childArch := false
	for _, a := range c15ChildArchs {
		childArch = childArch || a == sc.Arch
	}
	switch sc.Cancel {
	case "never":
		plain := c15Exec(sc, "plain", 0, 0, nil)
		if plain.Panic != "" {
			out.One(1, false)
			out.Fail = &core.Failure{Oracle: "panic", Detail: desc("plain", 0, 0) + ": " + plain.Panic}
			return out
		}
		out.Fail = check("never", 0, 0, plain)
	case "enum":
		plain := c15Exec(sc, "plain", 0, 0, nil)
		total := plain.Steps
		stride := sc.Stride
		if stride < 1 {
			stride = 1
		}
		if f := check("never", 0, 0, plain); f != nil {
			out.Fail = f
			return out
		}
		perRun := 1
		if childArch || sc.Arch == "outputs" {
			perRun = 12 // runs with child processes cost milliseconds each
			if sc.Warm {
				perRun = 25 // and the warm-up run starts another one
			}
		}
		if max := 1500 / perRun; (total+1)/stride > max {
			stride = (total + max) / max // keep an enumerated scenario within a few seconds
		}
		began := time.Now()
		for c := 1; c <= total+1; c += stride {
			if time.Since(began) > 45*time.Second {
				// a loaded machine: the rest of this enumeration is left to other scenarios
				// rather than to the harness watchdog
				out.Probe("enumerations_cut_short_by_wall_clock", 1)
				return out
			}
			if f := check("step", c, 0, nil); f != nil {
				out.Fail = f
				red := *sc
				red.Cancel, red.CancelStep = "step", c
				out.Reduced = &red
				return out
			}
		}
		out.Probe("enumerated_runs_every_cancel_step", 1)
	default:
		_ = childArch
		out.Fail = check(sc.Cancel, sc.CancelStep, sc.CancelTick, nil)
	}
	return out
}

func (c15Engine) Shrink(scAny any) []any {
	sc := scAny.(*c15Scn)
	var out []any
	add := func(f func(c *c15Scn)) {
		c := *sc
		f(&c)
		out = append(out, &c)
	}
	if sc.Buffered {
		add(func(c *c15Scn) { c.Buffered = false })
	}
	if sc.Deadline {
		add(func(c *c15Scn) { c.Deadline = false })
	}
	for _, v := range []int{1, sc.N / 2, sc.N - 1} {
		if v >= 1 && v < sc.N {
			v := v
			add(func(c *c15Scn) { c.N = v })
		}
	}
	for _, v := range []int{0, sc.Lines / 2, sc.Lines - 1} {
		if v >= 0 && v < sc.Lines {
			v := v
			add(func(c *c15Scn) { c.Lines = v })
		}
	}
	for _, v := range []int{1, sc.Depth / 2} {
		if v >= 1 && v < sc.Depth {
			v := v
			add(func(c *c15Scn) { c.Depth = v })
		}
	}
	for _, v := range []int{1, sc.CancelStep / 2, sc.CancelStep - 1} {
		if v >= 1 && v < sc.CancelStep {
			v := v
			add(func(c *c15Scn) { c.CancelStep = v })
		}
	}
	for _, v := range []int{1, sc.CancelTick / 2, sc.CancelTick - 1} {
		if v >= 1 && v < sc.CancelTick {
			v := v
			add(func(c *c15Scn) { c.CancelTick = v })
		}
	}
	return out
}
