package eng

import (
	"bytes"
	"fmt"
	"io"
	"os"
	"regexp"
	"strconv"
	"strings"
	"unicode/utf8"

	"github.com/benhoyt/goawk/interp"
	"github.com/benhoyt/goawk/verifharness/core"
)

// ---------------------------------------------------------------------------------------
// C07 — record reading is lossless and independent of how input bytes arrive.
// ---------------------------------------------------------------------------------------

type c07Src struct {
	// The input is PadUnit repeated PadCount times followed by Data.
	PadUnit  core.Bytes    `json:"pad_unit,omitempty"`
	PadCount int           `json:"pad_count,omitempty"`
	Data     core.Bytes    `json:"data"`
	D        core.Delivery `json:"delivery"`
}

func (s *c07Src) bytes() []byte {
	if s.PadCount <= 0 || len(s.PadUnit) == 0 {
		return []byte(s.Data)
	}
	out := bytes.Repeat([]byte(s.PadUnit), s.PadCount)
	return append(out, s.Data...)
}

type c07Scn struct {
	// Mode: main | getline | getline-var | getline-file | getline-cmd
	Mode string `json:"mode"`
	// Where the main input comes from (modes main/getline/getline-var): stdin | file | files2
	Where string     `json:"where"`
	RS    core.Bytes `json:"rs"`
	Srcs  []c07Src   `json:"srcs"`
	// Enum: "" (the explicit delivery in Srcs), "allchunk" (every composition of Srcs[0],
	// with and without EOF-with-data), "splits" (every single split point, all-1-byte,
	// 1-byte with zero-length reads)
	Enum string `json:"enum,omitempty"`
	// ViaContext: run through interp.New + ExecuteContext with a context that is never cancelled
	ViaContext bool `json:"via_context,omitempty"`
	// Warm: the Interpreter is reused: it first ran the same program over a small input with the
	// record separator WarmRS; WarmReset: ResetVars is called in between (and a newline RS is then
	// left to its default instead of being passed in Vars). Applies to runs that read standard input.
	Warm      bool       `json:"warm,omitempty"`
	WarmRS    core.Bytes `json:"warm_rs,omitempty"`
	WarmReset bool       `json:"warm_reset,omitempty"`
	// SwitchAt > 0 (mode main, RS a regex): the program assigns RS2 to RS while record SwitchAt is
	// the current one; the scanner is alive, the rest of the stream must be split by RS2
	// ("RS change recompiles separator seen by an active regex splitter")
	SwitchAt int        `json:"switch_at,omitempty"`
	RS2      core.Bytes `json:"rs2,omitempty"`
}

type c07Rec struct {
	NR, FNR int
	Rec, RT string
}

type c07Obs struct {
	Recs   []c07Rec
	FinNR  int
	FinR   int
	Fin    bool
	Res    execResult
	Bounds [][]int
	Stats  core.ReaderStats
}

var c07cur *c07Obs

var c07funcs = map[string]any{
	"obs": func(nr, fnr int, rec, rt string) {
		c07cur.Recs = append(c07cur.Recs, c07Rec{nr, fnr, rec, rt})
	},
	"fin": func(nr, r int) {
		c07cur.Fin = true
		c07cur.FinNR = nr
		c07cur.FinR = r
	},
}

var c07progs = map[string]string{
	"main":         `{ obs(NR, FNR, $0, RT) } END { fin(NR, 0) }`,
	"getline":      `BEGIN { while ((r = (getline)) > 0) obs(NR, FNR, $0, RT); fin(NR, r) }`,
	"getline-var":  `BEGIN { while ((r = (getline line)) > 0) obs(NR, FNR, line, RT); fin(NR, r) }`,
	// a main-loop record is current while 'getline line' takes the next one: $0 is looked at only
	// afterwards and must still be the first record's own text (the same record sequence as "main")
	"main-getvar": `{ rt0 = RT; n0 = NR; f0 = FNR; r = (getline line); obs(n0, f0, $0, rt0); if (r > 0) obs(NR, FNR, line, RT) } END { fin(NR, 0) }`,
	"getline-file": `BEGIN { while ((r = (getline line < "f0")) > 0) obs(NR, FNR, line, RT); fin(NR, r) }`,
	"getline-cmd":  `BEGIN { while ((r = (cmd | getline line)) > 0) obs(NR, FNR, line, RT); fin(NR, r) }`,
	// a history: f0 is read to its end and closed, then f0 and f1 are read alternately (two
	// scanners alive at once, after a scanner has been retired)
	"getline-two": `BEGIN { while ((getline line < "f0") > 0) n++; close("f0")
	for (;;) { r1 = (getline a < "f0"); if (r1 > 0) obs(1, 0, a, RT); r2 = (getline b < "f1"); if (r2 > 0) obs(2, 0, b, RT); if (r1 <= 0 && r2 <= 0) break }
	fin(NR, (r1 < 0 || r2 < 0) ? -1 : 0) }`,
}

const c07switchProg = `{ obs(NR, FNR, $0, RT) } NR == K { RS = RS2 } END { fin(NR, 0) }`

// separators of the RS-switch scenarios: regexes that cannot match the empty string and have no
// alternative that is a proper prefix of a longer match needing more input (open finding F-C07-1R)
var c07switchRS = []string{";+", "ab+", "xy", "[;,]+", "\n\n+", "--+", "é", "a+b", "=="}
var c07switchRS2 = []string{";+", "ab+", "xy", "[;,]+", "\n\n+", "--+", "é", "a+b", "==", ",", ";", "x"}

type c07Engine struct{}

func init() { core.Register(c07Engine{}) }

func (c07Engine) ID() string { return "C07" }
func (c07Engine) Level(tier string) string {
	return "fault_enumeration"
}
func (c07Engine) Rule() string {
	return "scenario = (read mode, RS, input bytes, delivery schedule); RS drawn from newline / every single byte / empty / multi-byte char / a regex grammar with growing, alternating and empty matches; inputs over an alphabet derived from RS; 'allchunk' scenarios enumerate every composition of the input (x EOF-with-data), 'splits' every single split point and 1-byte delivery, others draw one schedule (zero-length reads, buffer-edge inputs of 64-260 KiB, injected read errors). One evaluation = one execution of the real interpreter under one schedule. Distinct = distinct event-log hash (reads as seen by the scanner + observed records); non-trivial = the input produced at least one record and the schedule split the input at least once."
}
func (c07Engine) Assumptions() []string {
	return []string{
		"Go regexp (leftmost-longest) applied to the whole input in memory is the reference for regex RS; bufio.Scanner is part of the system under test",
		"native functions obs()/fin() (Config.Funcs) convert string and int arguments faithfully (property C17, not claimed here)",
		"RS is fixed per run (changing RS in mid-stream is out of scope); main input on stdin is not combined with getline < \"-\"",
		"RS=\"\" reference applies to CR-free inputs; with CRs only delivery independence and losslessness of the non-CR bytes are checked",
	}
}
func (c07Engine) Components() map[string]string {
	return map[string]string{
		"interp record splitters, bufio.Scanner, getline, main loop": "real",
		"stdin": "stub (SimReader)", "files": "real files behind Config.OpenFile, delivery shaped through hook H2",
		"child process for cmd|getline": "real process running stub simsh (free-running)",
	}
}
func (c07Engine) Count(tier string) int {
	if tier == "thorough" {
		return 60000
	}
	return 3200
}
func (c07Engine) BudgetS(tier string) int {
	if tier == "thorough" {
		return 900
	}
	return 50
}
func (c07Engine) Workers(tier string) int { return 0 }
func (c07Engine) NewScenario() any        { return &c07Scn{} }

// ---- generation ----

var c07CuratedRS = []string{
	"ab+", "a+", "\n\n+", "a*b", "a|abc", "abc|b", "(ab)+", "a?b", "[ab]c", "b*", "a{2,3}", "\r?\n", "ab|a",
	"a(bc)?", "(a|ab)(c|bcd)", "x*", "a|b|cc", "aa|aaa", "a.c", "(a|b)+c", ";;", "ab", "abc", "\n+", "[\n;]+", "a|a*b", "()", "a*",
	"[^a-z]", "[^xy\n]", "abcd|c", "[^a-c]+", "c|abcd", "[^[:alnum:]]",
}

func c07GenRegex(r *core.Rand) string {
	if r.Chance(2, 3) {
		return core.Pick(r, c07CuratedRS)
	}
	alpha := "abc"
	var sb strings.Builder
	n := r.Range(1, 3)
	for i := 0; i < n; i++ {
		c := string(alpha[r.Intn(len(alpha))])
		switch r.Intn(7) {
		case 0:
			sb.WriteString(c + "+")
		case 1:
			sb.WriteString(c + "*")
		case 2:
			sb.WriteString(c + "?")
		case 3:
			a := string(alpha[r.Intn(3)])
			b := a + string(alpha[r.Intn(3)]) + string(alpha[r.Intn(3)])
			if r.Bool() {
				a, b = b, a
			}
			sb.WriteString("(" + a + "|" + b + ")")
		default:
			sb.WriteString(c)
		}
	}
	s := sb.String()
	if utf8.RuneCountInString(s) < 2 {
		s += "b"
	}
	return s
}

func c07GenRS(r *core.Rand) []byte {
	switch r.Intn(12) {
	case 0, 1:
		return []byte("\n")
	case 2, 3:
		if r.Chance(1, 3) {
			return []byte{byte(r.Intn(256))}
		}
		return []byte{core.Pick(r, []byte{';', 'a', ' ', '\t', '\r', 0, 0xff, 0x80, 0xc3, ',', '|', 'x'})}
	case 4:
		return []byte("")
	case 5:
		return []byte(core.Pick(r, []string{"é", "€", "😀", "ß"}))
	default:
		return []byte(c07GenRegex(r))
	}
}

// c07Alphabet derives the input alphabet from RS.
func c07Alphabet(rs []byte) []string {
	alpha := []string{"x", "y", "\n", "\r"}
	s := string(rs)
	switch {
	case s == "":
		alpha = append(alpha, "\n", "\n", "\n\n", "p", "\r\n")
	case len(rs) == 1:
		alpha = append(alpha, s, s)
		if rs[0] >= 0x80 {
			// a non-UTF-8 separator byte among other invalid bytes and multi-byte characters
			alpha = append(alpha, "\xfe", "\x80", "\xc3\xa9", string([]byte{rs[0] ^ 1}))
		}
	case utf8.RuneCountInString(s) == 1:
		alpha = append(alpha, s, s)
		for i := range rs { // and its single bytes: partial sequences
			alpha = append(alpha, string(rs[i]))
		}
	default:
		for _, c := range s {
			if strings.ContainsRune(`+*?|()[]{}.\^$,0123456789:`, c) {
				continue
			}
			alpha = append(alpha, string(c), string(c))
		}
		alpha = append(alpha, "a", "b", "c", "d", "\n")
		if strings.Contains(s, "[^") {
			// a negated class matches anything else, in particular bytes that are not UTF-8
			alpha = append(alpha, "\xff", "\x80", "\xc3\xa9", ";", " ")
		}
	}
	return alpha
}

func c07GenInput(r *core.Rand, rs []byte, maxLen int) []byte {
	alpha := c07Alphabet(rs)
	n := r.Intn(maxLen + 1)
	var out []byte
	for len(out) < n {
		out = append(out, core.Pick(r, alpha)...)
	}
	if len(out) > maxLen {
		out = out[:maxLen]
	}
	return out
}

func genDelivery(r *core.Rand, n int) core.Delivery {
	var d core.Delivery
	d.EOFWithData = r.Bool()
	switch r.Intn(5) {
	case 0: // one shot
	case 1: // all 1-byte
		for i := 0; i < n; i++ {
			d.Chunks = append(d.Chunks, 1)
		}
	case 2: // single split
		if n > 1 {
			d.Chunks = []int{r.Range(1, n-1)}
		}
	default: // random composition with zero-length reads sprinkled in
		left := n
		for left > 0 {
			if r.Chance(1, 6) {
				d.Chunks = append(d.Chunks, 0)
				continue
			}
			c := r.Range(1, 4)
			if r.Chance(1, 5) {
				c = r.Range(1, left)
			}
			if c > left {
				c = left
			}
			d.Chunks = append(d.Chunks, c)
			left -= c
		}
	}
	return d
}

func (c07Engine) Gen(r *core.Rand, tier string, i int) any {
	sc := &c07Scn{Mode: "main", Where: "stdin"}
	sc.ViaContext = r.Chance(1, 5)
	sc.RS = c07GenRS(r)
	if r.Chance(1, 6) {
		sc.Warm, sc.WarmReset = true, r.Bool()
		sc.WarmRS = core.Bytes(core.Pick(r, []string{"", ";", "x+", "\n", "ab", "\xff", "é"}))
	}
	enumMax := 8
	if tier == "thorough" {
		enumMax = 12
	}
	kind := r.Intn(100)
	switch {
	case kind < 30: // every chunking of a short input
		sc.Enum = "allchunk"
		sc.Srcs = []c07Src{{Data: c07GenInput(r, sc.RS, enumMax)}}
	case kind < 45: // every split point of a longer input
		sc.Enum = "splits"
		sc.Srcs = []c07Src{{Data: c07GenInput(r, sc.RS, 40)}}
	case kind < 52: // buffer-edge input
		sc.Srcs = []c07Src{c07GenBig(r, sc.RS)}
	case kind < 60: // injected read error
		data := c07GenInput(r, sc.RS, 30)
		d := genDelivery(r, len(data))
		d.HasErr = true
		d.ErrAt = r.Intn(len(data) + 1)
		sc.Srcs = []c07Src{{Data: data, D: d}}
	default:
		data := c07GenInput(r, sc.RS, 24)
		sc.Srcs = []c07Src{{Data: data, D: genDelivery(r, len(data))}}
	}
	// read mode and source
	m := r.Intn(100)
	if i%10 == 7 && (sc.Enum == "allchunk" || sc.Enum == "splits" || kind >= 60) {
		// RS is assigned while the scanner is alive
		sc.Warm, sc.Mode, sc.Where = false, "main", core.Pick(r, []string{"stdin", "stdin", "file"})
		sc.RS = core.Bytes(core.Pick(r, c07switchRS))
		sc.RS2 = core.Bytes(core.Pick(r, c07switchRS2))
		sc.SwitchAt = core.Pick(r, []int{1, 1, 1, 2, 3})
		n := 24
		if sc.Enum == "allchunk" {
			n = enumMax
		}
		var data []byte
		for len(data) < n {
			data = append(data, c07GenInput(r, core.Pick(r, []core.Bytes{sc.RS, sc.RS2}), 5)...)
		}
		data = data[:n]
		for !utf8.Valid(data) && len(data) > 0 { // never cut a multi-byte character
			data = data[:len(data)-1]
		}
		sc.Srcs = []c07Src{{Data: data, D: genDelivery(r, len(data))}}
		return sc
	}
	switch {
	case m < 50:
		sc.Mode, sc.Where = "main", "stdin"
	case m < 58:
		sc.Mode, sc.Where = "main", "file"
	case m < 66:
		sc.Mode, sc.Where = "main", "files2"
		data := c07GenInput(r, sc.RS, 16)
		sc.Srcs = append(sc.Srcs, c07Src{Data: data, D: genDelivery(r, len(data))})
	case m < 74:
		sc.Mode, sc.Where = "getline", core.Pick(r, []string{"stdin", "file"})
	case m < 84:
		sc.Mode, sc.Where = "getline-var", core.Pick(r, []string{"stdin", "file"})
		if r.Chance(1, 3) {
			sc.Mode = "main-getvar"
			for k := range sc.Srcs {
				sc.Srcs[k].D.HasErr = false // (what a rule does after getline returned -1 is not the point here)
			}
		}
	case m < 90:
		sc.Mode, sc.Where = "getline-file", ""
	case m < 97:
		sc.Mode, sc.Where = "getline-two", ""
		data := c07GenInput(r, sc.RS, 16)
		sc.Srcs = append(sc.Srcs[:1:1], c07Src{Data: data, D: genDelivery(r, len(data))})
		if sc.Enum == "" && r.Chance(1, 3) {
			// both streams hold far more than one small read: each scanner keeps unread records
			// buffered while the other stream is being read
			sep := c07SepInstance(sc.RS)
			for k, unit := range []string{"ab-", "cdcd"} {
				u := append([]byte(unit), sep...)
				sc.Srcs[k] = c07Src{PadUnit: u, PadCount: r.Range(5000, 70000) / len(u), Data: c07GenInput(r, sc.RS, 8)}
			}
		}
	default:
		sc.Mode, sc.Where = "getline-cmd", ""
		if sc.Enum == "allchunk" && len(sc.Srcs[0].Data) > 5 {
			sc.Srcs[0].Data = sc.Srcs[0].Data[:5] // children are slow: fewer executions
		}
		if sc.Enum == "splits" && len(sc.Srcs[0].Data) > 12 {
			sc.Srcs[0].Data = sc.Srcs[0].Data[:12]
		}
	}
	return sc
}

// c07SepInstance is a literal byte string that RS matches as one separator.
func c07SepInstance(rs []byte) []byte {
	if len(rs) == 0 {
		return []byte("\n\n")
	}
	if len(rs) > 1 && utf8.RuneCountInString(string(rs)) > 1 {
		alpha := c07Alphabet(rs)
		return []byte(alpha[len(alpha)-1])
	}
	return rs
}

// c07GenBig plants separators and partial matches around the scanner's buffer edges.
func c07GenBig(r *core.Rand, rs []byte) c07Src {
	edge := core.Pick(r, []int{65536, 65536, 131072, 196608, 262144}) // multiples of the 64 KiB read size
	if string(rs) == "\n" && r.Chance(1, 3) {
		// one line that ends with CR LF exactly at, just before or just after the edge: the CR is
		// the last byte of one block and the LF the first of the next
		src := c07Src{PadUnit: core.Bytes("x"), PadCount: edge - 1 + r.Range(-1, 1)}
		src.Data = append(core.Bytes("\r\n"), c07GenInput(r, rs, 10)...)
		if r.Bool() {
			src.D.Chunks = []int{edge}
		}
		src.D.EOFWithData = r.Bool()
		return src
	}
	unit := []byte("xxxxxxxxxxxxxxx")
	sep := rs
	if len(rs) > 1 && utf8.RuneCountInString(string(rs)) > 1 || len(rs) == 0 {
		// regex or paragraph mode: use a literal instance
		alpha := c07Alphabet(rs)
		sep = []byte(alpha[len(alpha)-1])
		if len(rs) == 0 {
			sep = []byte("\n\n")
		}
	}
	switch r.Intn(3) {
	case 0: // one huge first record
		unit = []byte("x")
	case 1: // many records
		unit = append(unit, sep...)
	default:
		unit = append([]byte("yyyyyyy"), sep...)
	}
	tail := c07GenInput(r, rs, 12)
	// choose the padding so that the tail straddles the edge
	off := r.Range(-6, 2)
	padLen := edge + off - len(tail)/2
	count := padLen / len(unit)
	src := c07Src{PadUnit: unit, PadCount: count}
	fill := padLen - count*len(unit)
	data := bytes.Repeat([]byte("z"), fill)
	data = append(data, tail...)
	data = append(data, c07GenInput(r, rs, 10)...)
	src.Data = data
	total := count*len(unit) + len(data)
	switch r.Intn(4) {
	case 0:
	case 1:
		src.D.Chunks = []int{edge - 1, 1, 1, 1}
	case 2:
		src.D.Chunks = []int{r.Range(1, total)}
	default:
		src.D.Chunks = []int{edge + r.Range(-3, 3)}
	}
	src.D.EOFWithData = r.Bool()
	return src
}

// ---- reference (specification level, no buffering) ----

type c07Ref struct {
	Recs  []c07Rec // NR/FNR unset
	HasRT bool     // RT values are specified
	// EmptyMatch: the RS regex had an empty leftmost match somewhere (gawk rule: the rest of
	// the input is one record); the leftmost-longest claim is not asserted for such RS.
	Lead string // bytes ignored before the first record (RS="")
	Note string
}

func dropCRs(s string) string {
	if strings.HasSuffix(s, "\r") {
		return s[:len(s)-1]
	}
	return s
}

var c07reCache = map[string]*regexp.Regexp{}

func c07Regexp(rs string) (*regexp.Regexp, error) {
	if re, ok := c07reCache[rs]; ok {
		return re, nil
	}
	pat := "(?s:" + rs + ")"
	if utf8.RuneCountInString(rs) == 1 {
		pat = regexp.QuoteMeta(rs)
	}
	re, err := regexp.Compile(pat)
	if err != nil {
		return nil, err
	}
	re.Longest()
	if len(c07reCache) > 2000 {
		c07reCache = map[string]*regexp.Regexp{}
	}
	c07reCache[rs] = re
	return re, nil
}

// c07Reference splits data by the rules of the property statement.
func c07Reference(rs string, data []byte) (*c07Ref, error) {
	ref := &c07Ref{}
	switch {
	case rs == "\n":
		pos := 0
		for pos < len(data) {
			i := bytes.IndexByte(data[pos:], '\n')
			if i < 0 {
				ref.Recs = append(ref.Recs, c07Rec{Rec: dropCRs(string(data[pos:]))})
				break
			}
			ref.Recs = append(ref.Recs, c07Rec{Rec: dropCRs(string(data[pos : pos+i]))})
			pos += i + 1
		}
	case len(rs) == 1:
		parts := bytes.Split(data, []byte(rs))
		if len(parts) > 0 && len(parts[len(parts)-1]) == 0 {
			parts = parts[:len(parts)-1]
		}
		for _, p := range parts {
			ref.Recs = append(ref.Recs, c07Rec{Rec: string(p)})
		}
	case rs == "":
		if bytes.IndexByte(data, '\r') >= 0 {
			return nil, nil // statement is silent: no reference
		}
		ref.HasRT = true
		pos := 0
		for pos < len(data) && data[pos] == '\n' {
			pos++
		}
		ref.Lead = string(data[:pos])
		for pos < len(data) {
			j := bytes.Index(data[pos:], []byte("\n\n"))
			if j < 0 {
				rec := string(data[pos:])
				rt := ""
				if strings.HasSuffix(rec, "\n") {
					rec, rt = rec[:len(rec)-1], "\n"
				}
				ref.Recs = append(ref.Recs, c07Rec{Rec: rec, RT: rt})
				break
			}
			k := pos + j
			for k < len(data) && data[k] == '\n' {
				k++
			}
			ref.Recs = append(ref.Recs, c07Rec{Rec: string(data[pos : pos+j]), RT: string(data[pos+j : k])})
			pos = k
		}
	default:
		re, err := c07Regexp(rs)
		if err != nil {
			return nil, err
		}
		ref.HasRT = true
		pos := 0
		for pos < len(data) {
			loc := re.FindIndex(data[pos:])
			if loc == nil || loc[0] == loc[1] {
				if loc != nil {
					ref.Note = "empty-match"
				}
				ref.Recs = append(ref.Recs, c07Rec{Rec: string(data[pos:]), RT: ""})
				break
			}
			ref.Recs = append(ref.Recs, c07Rec{Rec: string(data[pos : pos+loc[0]]), RT: string(data[pos+loc[0] : pos+loc[1]])})
			pos += loc[1]
		}
	}
	return ref, nil
}

// ---- execution ----

func c07Exec(sc *c07Scn, ds []core.Delivery, log *core.Log) *c07Obs {
	obs := &c07Obs{}
	c07cur = obs
	src, ok := c07progs[sc.Mode]
	if !ok {
		core.Fatal("C07: unknown mode %q", sc.Mode)
	}
	if sc.SwitchAt > 0 {
		src = c07switchProg
	}
	prog, err := parse("c07", src, c07funcs)
	if err != nil {
		core.Fatal("C07: parse: %v", err)
	}
	cfg := &interp.Config{
		Stdin: nullFile(), Output: io.Discard, Error: io.Discard, Funcs: c07funcs, Environ: []string{},
		Vars: []string{"RS", string(sc.RS)},
	}
	if sc.SwitchAt > 0 {
		cfg.Vars = append(cfg.Vars, "K", strconv.Itoa(sc.SwitchAt), "RS2", string(sc.RS2))
	}
	var fs *core.SimFS
	needFS := sc.Where == "file" || sc.Where == "files2" || sc.Mode == "getline-file" || sc.Mode == "getline-cmd" || sc.Mode == "getline-two"
	var readers []*core.ShapedReader
	var stdinReader *core.SimReader
	if needFS {
		fs, err = core.NewSimFS(scratchBase(), log)
		if err != nil {
			core.Fatal("C07: simfs: %v", err)
		}
		defer fs.Remove()
		cfg.OpenFile = fs.Open
		for i := range sc.Srcs {
			if err := fs.Put(fmt.Sprintf("f%d", i), sc.Srcs[i].bytes()); err != nil {
				core.Fatal("C07: put: %v", err)
			}
		}
		k := 0
		interp.VerifWrapReader = func(r io.Reader) io.Reader {
			if _, ok := r.(*core.SimReader); ok {
				return r
			}
			if f, ok := r.(*os.File); ok && f.Name() == "/dev/null" {
				return r
			}
			d := core.Delivery{}
			idx := k
			if sc.Mode == "getline-two" { // f0 (to EOF), f0 again, f1
				idx = []int{0, 0, 1}[k%3]
			}
			if idx < len(ds) {
				d = ds[idx]
			}
			sr := &core.ShapedReader{Under: r, Name: fmt.Sprintf("src%d", k), D: d, Stats: &obs.Stats, Log: log}
			k++
			readers = append(readers, sr)
			return sr
		}
		defer func() { interp.VerifWrapReader = nil }()
	}
	switch {
	case sc.Mode == "getline-file", sc.Mode == "getline-two":
	case sc.Mode == "getline-cmd":
		cfg.ShellCommand = []string{simshPath(), "-"}
		cfg.Vars = append(cfg.Vars, "cmd", "c0;cat:"+fs.Path("f0"))
	case sc.Where == "stdin":
		stdinReader = core.NewSimReader("stdin", sc.Srcs[0].bytes(), ds[0], &obs.Stats, log)
		cfg.Stdin = stdinReader
	case sc.Where == "file":
		cfg.Args = []string{"f0"}
	case sc.Where == "files2":
		cfg.Args = []string{"f0", "f1"}
	}
	if sc.Warm && sc.Where == "stdin" && !needFS {
		it, ierr := interp.New(prog)
		if ierr != nil {
			core.Fatal("C07: New: %v", ierr)
		}
		warm := *cfg
		warm.Stdin = bytes.NewReader([]byte("a b;c\nxx d\n\n\ne;\n"))
		warm.Vars = []string{"RS", string(sc.WarmRS)}
		c07cur = &c07Obs{}
		wres := guarded(func() (int, error) { return it.Execute(&warm) })
		c07cur = obs
		if wres.Panic != "" {
			obs.Res = wres
		} else {
			if sc.WarmReset {
				it.ResetVars()
				if string(sc.RS) == "\n" {
					cfg.Vars = nil
				}
			}
			if sc.ViaContext {
				obs.Res = guarded(func() (int, error) { return it.ExecuteContext(core.NewSimContext(), cfg) })
			} else {
				obs.Res = guarded(func() (int, error) { return it.Execute(cfg) })
			}
		}
	} else if sc.ViaContext {
		it, ierr := interp.New(prog)
		if ierr != nil {
			core.Fatal("C07: New: %v", ierr)
		}
		obs.Res = guarded(func() (int, error) { return it.ExecuteContext(core.NewSimContext(), cfg) })
	} else {
		obs.Res = execProgram(prog, cfg)
	}
	if sc.Mode == "getline-two" {
		var g []c07Rec
		for src := 1; src <= 2; src++ {
			for _, rec := range obs.Recs {
				if rec.NR == src {
					g = append(g, c07Rec{Rec: rec.Rec, RT: rec.RT})
				}
			}
		}
		obs.Recs = g
		if len(readers) == 3 { // bounds as [f0, f1]: the first pass over f0 is not the observed one
			readers = readers[1:]
		}
	}
	if stdinReader != nil {
		obs.Bounds = append(obs.Bounds, stdinReader.Bounds)
	}
	for _, sr := range readers {
		if sr.Sim() != nil {
			obs.Bounds = append(obs.Bounds, sr.Sim().Bounds)
		} else {
			obs.Bounds = append(obs.Bounds, nil)
		}
	}
	for _, rec := range obs.Recs {
		log.Addf("rec %d %d %q %q", rec.NR, rec.FNR, rec.Rec, rec.RT)
	}
	log.Addf("fin %v %d %d status=%d err=%q panic=%q", obs.Fin, obs.FinNR, obs.FinR, obs.Res.Status, obs.Res.errString(), obs.Res.Panic)
	return obs
}

func (e c07Engine) Run(scAny any, keep bool) core.Outcome {
	sc := scAny.(*c07Scn)
	var out core.Outcome
	if len(sc.Srcs) == 0 {
		return out
	}
	datas := make([][]byte, len(sc.Srcs))
	for i := range sc.Srcs {
		datas[i] = sc.Srcs[i].bytes()
	}
	// Baseline: one-shot delivery of every source, fault-free.
	base := make([]core.Delivery, len(sc.Srcs))
	baseObs := c07Exec(sc, base, nil)
	c07base = baseObs

	runOne := func(ds []core.Delivery) *core.Failure {
		log := core.NewLog(keep)
		obs := c07Exec(sc, ds, log)
		split := false
		for _, b := range obs.Bounds {
			if len(b) > 1 {
				split = true
			}
		}
		out.One(log.Hash(), len(obs.Recs) > 0 && split)
		out.Probe("reads", obs.Stats.Reads)
		out.Probe("zero_length_reads", obs.Stats.ZeroReads)
		out.Probe("reads_cut_by_scanner_buffer", obs.Stats.BufferCuts)
		out.Probe("fault:read_error_fired", obs.Stats.Errors)
		out.Probe("eof_delivered_with_data", obs.Stats.EOFWithData)
		out.SimTime += int64(obs.Stats.Reads)
		if keep {
			out.Log = append(out.Log, log.Lines...)
		}
		f := c07Check(sc, datas, ds, obs, baseObs, &out)
		return f
	}

	switch sc.Enum {
	case "allchunk":
		data := datas[0]
		var fail *core.Failure
		var failing *c07Scn
		compositions(len(data), func(parts []int) bool {
			for eof := 0; eof < 2; eof++ {
				ds := append([]core.Delivery(nil), base...)
				ds[0] = core.Delivery{Chunks: parts, EOFWithData: eof == 1}
				if f := runOne(ds); f != nil {
					fail = f
					failing = c07Explicit(sc, ds)
					return false
				}
			}
			return true
		})
		out.Fail = fail
		if failing != nil {
			out.Reduced = failing
		}
		return out
	case "splits":
		n := len(datas[0])
		var scheds []core.Delivery
		for k := 1; k < n; k++ {
			scheds = append(scheds, core.Delivery{Chunks: []int{k}}, core.Delivery{Chunks: []int{k}, EOFWithData: true})
		}
		ones := make([]int, n)
		zeros := make([]int, 0, 2*n)
		for k := range ones {
			ones[k] = 1
			zeros = append(zeros, 0, 1)
		}
		scheds = append(scheds, core.Delivery{}, core.Delivery{EOFWithData: true}, core.Delivery{Chunks: ones}, core.Delivery{Chunks: ones, EOFWithData: true}, core.Delivery{Chunks: zeros})
		for _, d := range scheds {
			ds := append([]core.Delivery(nil), base...)
			ds[0] = d
			if f := runOne(ds); f != nil {
				out.Fail = f
				out.Reduced = c07Explicit(sc, ds)
				return out
			}
		}
		return out
	default:
		ds := make([]core.Delivery, len(sc.Srcs))
		for i := range sc.Srcs {
			ds[i] = sc.Srcs[i].D
		}
		out.Fail = runOne(ds)
		return out
	}
}

// c07Explicit turns an enumerated scenario into one with an explicit delivery.
func c07Explicit(sc *c07Scn, ds []core.Delivery) *c07Scn {
	c := *sc
	c.Enum = ""
	c.Srcs = append([]c07Src(nil), sc.Srcs...)
	for i := range c.Srcs {
		c.Srcs[i].D = ds[i]
		c.Srcs[i].D.Chunks = append([]int(nil), ds[i].Chunks...)
	}
	return &c
}

func recsString(rs []c07Rec, withNR, withRT bool) string {
	var sb strings.Builder
	for i, r := range rs {
		if i > 0 {
			sb.WriteString(" ")
		}
		if i >= 12 {
			fmt.Fprintf(&sb, "... (%d records)", len(rs))
			break
		}
		rec := r.Rec
		if len(rec) > 40 {
			rec = fmt.Sprintf("%s...(%d bytes)", rec[:20], len(rec))
		}
		sb.WriteString(fmt.Sprintf("%q", rec))
		if withRT {
			fmt.Fprintf(&sb, "+RT%q", r.RT)
		}
		if withNR {
			fmt.Fprintf(&sb, "@%d/%d", r.NR, r.FNR)
		}
	}
	return "[" + sb.String() + "]"
}

// c07Check evaluates the oracles on one observed execution.
func c07Check(sc *c07Scn, datas [][]byte, ds []core.Delivery, obs, base *c07Obs, out *core.Outcome) *core.Failure {
	rs := string(sc.RS)
	desc := func() string {
		var parts []string
		for i := range ds {
			parts = append(parts, fmt.Sprintf("src%d=%q chunks=%v eof_with_data=%v", i, clip(string(datas[i]), 60), clipInts(ds[i].Chunks), ds[i].EOFWithData))
		}
		warm := ""
		if sc.Warm {
			warm = fmt.Sprintf(" warm_rs=%q warm_reset=%v", string(sc.WarmRS), sc.WarmReset)
		}
		return fmt.Sprintf("mode=%s/%s via_context=%v%s RS=%q %s", sc.Mode, sc.Where, sc.ViaContext, warm, rs, strings.Join(parts, " "))
	}
	// Oracle 5: no panic.
	if obs.Res.Panic != "" {
		f := &core.Failure{Oracle: "panic", Detail: desc() + " panic: " + obs.Res.Panic}
		if len(rs) == 1 && !utf8.ValidString(rs) && strings.Contains(obs.Res.Panic, "regexp") && core.IsOpen("F-C07-3") {
			f.Known = "F-C07-3"
		}
		return f
	}
	if sc.SwitchAt > 0 {
		return c07CheckSwitch(sc, datas[0], obs, base, func() string {
			return desc() + fmt.Sprintf(" RS2=%q assigned at record %d", string(sc.RS2), sc.SwitchAt)
		}, out)
	}
	hasErr := false
	for _, d := range ds {
		hasErr = hasErr || d.HasErr
	}
	// An RS that is not a valid regex is rejected up front; nothing to check.
	var refs []*c07Ref
	for i := range datas {
		d := datas[i]
		if hasErr && ds[i].HasErr && ds[i].ErrAt < len(d) {
			d = d[:ds[i].ErrAt]
		}
		ref, err := c07Reference(rs, d)
		if err != nil {
			if obs.Res.Err == nil {
				return &core.Failure{Oracle: "invalid-rs-accepted", Detail: desc() + " RS does not compile (" + err.Error() + ") but the run succeeded"}
			}
			return nil
		}
		refs = append(refs, ref)
	}
	usesNR := sc.Mode == "main" || sc.Mode == "getline" || sc.Mode == "getline-var" || sc.Mode == "main-getvar"

	if hasErr {
		return c07CheckErr(sc, datas, ds, obs, refs, desc, usesNR)
	}
	if obs.Res.Err != nil {
		return &core.Failure{Oracle: "unexpected-error", Detail: desc() + " error: " + obs.Res.Err.Error()}
	}
	if !obs.Fin {
		return &core.Failure{Oracle: "end-not-reached", Detail: desc() + " END/fin never ran"}
	}

	// Oracle 1: delivery independence (against the one-shot run of the same input).
	if base != nil && base.Res.Panic == "" && base.Res.Err == nil {
		if len(obs.Recs) != len(base.Recs) {
			return c07Classify(sc, datas, obs, refs, &core.Failure{Oracle: "delivery-independence", Detail: fmt.Sprintf("%s: %d records %s, one-shot delivery gives %d records %s",
				desc(), len(obs.Recs), recsString(obs.Recs, false, true), len(base.Recs), recsString(base.Recs, false, true))})
		}
		for i := range obs.Recs {
			if obs.Recs[i].Rec != base.Recs[i].Rec {
				return c07Classify(sc, datas, obs, refs, &core.Failure{Oracle: "delivery-independence", Detail: fmt.Sprintf("%s: record %d is %q, one-shot delivery gives %q; all: %s vs %s",
					desc(), i+1, obs.Recs[i].Rec, base.Recs[i].Rec, recsString(obs.Recs, false, true), recsString(base.Recs, false, true))})
			}
		}
		for i := range obs.Recs {
			if obs.Recs[i].RT != base.Recs[i].RT {
				return c07Classify(sc, datas, obs, refs, &core.Failure{Oracle: "delivery-independence-RT", Detail: fmt.Sprintf("%s: RT of record %d is %q, one-shot delivery gives %q",
					desc(), i+1, obs.Recs[i].RT, base.Recs[i].RT)})
			}
			if obs.Recs[i].NR != base.Recs[i].NR || obs.Recs[i].FNR != base.Recs[i].FNR {
				return &core.Failure{Oracle: "delivery-independence-NR", Detail: fmt.Sprintf("%s: NR/FNR of record %d is %d/%d, one-shot delivery gives %d/%d",
					desc(), i+1, obs.Recs[i].NR, obs.Recs[i].FNR, base.Recs[i].NR, base.Recs[i].FNR)}
			}
		}
	}

	// Oracle 2: the statement's equations, against the reference split of the whole input.
	var want []c07Rec
	allRef := true
	for fi, ref := range refs {
		if ref == nil {
			allRef = false
			break
		}
		for i, r := range ref.Recs {
			w := c07Rec{Rec: r.Rec, RT: r.RT}
			if usesNR {
				w.NR = len(want) + 1
				w.FNR = i + 1
			}
			_ = fi
			want = append(want, w)
		}
	}
	if allRef {
		// (for a regex RS and for RS="" the record splitter itself maintains RT, for every
		// stream; with a single-byte RS only the main input sets it)
		hasRT := refs[0].HasRT
		if len(obs.Recs) != len(want) {
			return c07Classify(sc, datas, obs, refs, &core.Failure{Oracle: "lossless-records", Detail: fmt.Sprintf("%s: observed %d records %s, the input has %d: %s",
				desc(), len(obs.Recs), recsString(obs.Recs, false, hasRT), len(want), recsString(want, false, hasRT))})
		}
		for i := range want {
			if obs.Recs[i].Rec != want[i].Rec {
				return c07Classify(sc, datas, obs, refs, &core.Failure{Oracle: "lossless-records", Detail: fmt.Sprintf("%s: record %d is %q, expected %q; observed %s expected %s",
					desc(), i+1, obs.Recs[i].Rec, want[i].Rec, recsString(obs.Recs, false, hasRT), recsString(want, false, hasRT))})
			}
			if hasRT && obs.Recs[i].RT != want[i].RT {
				return c07Classify(sc, datas, obs, refs, &core.Failure{Oracle: "lossless-RT", Detail: fmt.Sprintf("%s: RT of record %d (%q) is %q, expected %q",
					desc(), i+1, want[i].Rec, obs.Recs[i].RT, want[i].RT)})
			}
			// Oracle 3: NR / FNR
			if obs.Recs[i].NR != want[i].NR || obs.Recs[i].FNR != want[i].FNR {
				return &core.Failure{Oracle: "NR-FNR", Detail: fmt.Sprintf("%s: record %d has NR/FNR %d/%d, expected %d/%d",
					desc(), i+1, obs.Recs[i].NR, obs.Recs[i].FNR, want[i].NR, want[i].FNR)}
			}
		}
		wantFin := 0
		if usesNR {
			wantFin = len(want)
		}
		if obs.FinNR != wantFin {
			return &core.Failure{Oracle: "NR-at-end", Detail: fmt.Sprintf("%s: NR at the end is %d, expected %d", desc(), obs.FinNR, wantFin)}
		}
		if obs.FinR != 0 {
			return &core.Failure{Oracle: "getline-result", Detail: fmt.Sprintf("%s: getline returned %d at end of input, expected 0", desc(), obs.FinR)}
		}
		out.Probe("executions_checked_against_reference", 1)
		if refs[0].Note == "empty-match" {
			out.Probe("rs_empty_leftmost_match_rule_applied", 1)
		}
	} else {
		out.Probe("executions_without_reference(CR_in_paragraph_mode)", 1)
	}
	// reach probe: a separator match ended exactly at a delivery boundary
	if allRef && len(refs) == 1 {
		pos := 0
		ends := map[int]bool{}
		for _, r := range want {
			pos += len(r.Rec) + len(r.RT)
			ends[pos] = true
		}
		for _, b := range obs.Bounds {
			for _, x := range b {
				if ends[x] && x < len(datas[0]) {
					out.Probe("separator_match_ended_exactly_at_delivery_boundary", 1)
					break
				}
			}
		}
	}
	return nil
}

// c07CheckErr: oracle 4, injected read error (separate batch from the fault-free runs).
// c07CheckSwitch: RS is a regex and the program assigns another separator while record K is
// current. The reference splits the first K records by RS and everything after them by RS2
// (each time the leftmost-longest non-empty match in the rest of the input); every delivery
// schedule must give that sequence, and records followed by their RT reproduce the input.
func c07CheckSwitch(sc *c07Scn, data []byte, obs, base *c07Obs, desc func() string, out *core.Outcome) *core.Failure {
	if obs.Res.Err != nil {
		return &core.Failure{Oracle: "unexpected-error", Detail: desc() + " error: " + obs.Res.Err.Error()}
	}
	re1, err1 := c07Regexp(string(sc.RS))
	re2, err2 := c07Regexp(string(sc.RS2))
	if err1 != nil || err2 != nil {
		core.Fatal("C07: switch separators must compile: %v %v", err1, err2)
	}
	var want []c07Rec
	pos := 0
	for n := 1; pos < len(data); n++ {
		re := re1
		if n > sc.SwitchAt {
			re = re2
		}
		rest := data[pos:]
		loc := re.FindIndex(rest)
		for loc != nil && loc[0] == loc[1] {
			core.Fatal("C07: switch separator %q matches the empty string", re.String())
		}
		if loc == nil {
			want = append(want, c07Rec{NR: n, FNR: n, Rec: string(rest)})
			pos = len(data)
			break
		}
		want = append(want, c07Rec{NR: n, FNR: n, Rec: string(rest[:loc[0]]), RT: string(rest[loc[0]:loc[1]])})
		pos += loc[1]
	}
	out.Probe("rs_switch_runs", 1)
	if len(want) > sc.SwitchAt {
		out.Probe("rs_switch_took_effect_mid_stream", 1)
	}
	got := recsString(obs.Recs, true, true)
	if b := recsString(base.Recs, true, true); got != b {
		return &core.Failure{Oracle: "delivery-independence", Detail: desc() + ": records " + clip(got, 300) + ", one-shot delivery gives " + clip(b, 300)}
	}
	if w := recsString(want, true, true); got != w {
		return &core.Failure{Oracle: "lossless-records", Detail: desc() + ": records " + clip(got, 300) + ", the reference split gives " + clip(w, 300)}
	}
	var sum strings.Builder
	for _, r := range obs.Recs {
		sum.WriteString(r.Rec)
		sum.WriteString(r.RT)
	}
	if sum.String() != string(data) {
		return &core.Failure{Oracle: "lossless-RT", Detail: desc() + ": records and RTs concatenate to " + clip(sum.String(), 200)}
	}
	if !obs.Fin || obs.FinNR != len(want) {
		return &core.Failure{Oracle: "nr-count", Detail: desc() + fmt.Sprintf(": END saw NR=%d (ran=%v), %d records expected", obs.FinNR, obs.Fin, len(want))}
	}
	return nil
}

func c07CheckErr(sc *c07Scn, datas [][]byte, ds []core.Delivery, obs *c07Obs, refs []*c07Ref, desc func() string, usesNR bool) *core.Failure {
	fired := obs.Stats.Errors > 0
	if !fired {
		return nil // the run ended before the error point was reached (cannot happen for a reader that is drained)
	}
	if sc.Mode == "main" {
		if obs.Res.Err == nil {
			return &core.Failure{Oracle: "read-error-swallowed", Detail: desc() + fmt.Sprintf(": read error injected at byte %d but the run returned no error", ds[0].ErrAt)}
		}
	} else {
		if obs.Res.Err != nil {
			return &core.Failure{Oracle: "read-error-getline", Detail: desc() + ": getline should return -1 on a read error, the run failed with: " + obs.Res.Err.Error()}
		}
		if !obs.Fin || obs.FinR != -1 {
			return &core.Failure{Oracle: "read-error-getline", Detail: desc() + fmt.Sprintf(": read error injected but getline returned %d (fin=%v), expected -1", obs.FinR, obs.Fin)}
		}
	}
	// Records seen must be a prefix of the records of the bytes delivered before the error.
	var want []c07Rec
	for _, ref := range refs {
		if ref == nil {
			return nil
		}
		want = append(want, ref.Recs...)
	}
	if len(obs.Recs) > len(want) {
		return c07ClassifyErr(sc, datas, ds, obs, &core.Failure{Oracle: "read-error-wrong-data", Detail: fmt.Sprintf("%s: %d records observed %s but only %d exist in the bytes delivered before the error: %s",
			desc(), len(obs.Recs), recsString(obs.Recs, false, false), len(want), recsString(want, false, false))})
	}
	for i := range obs.Recs {
		if obs.Recs[i].Rec != want[i].Rec {
			return c07ClassifyErr(sc, datas, ds, obs, &core.Failure{Oracle: "read-error-wrong-data", Detail: fmt.Sprintf("%s: record %d is %q, the delivered bytes give %q", desc(), i+1, obs.Recs[i].Rec, want[i].Rec)})
		}
	}
	return nil
}

// c07ClassifyErr applies the classifiers to the bytes delivered before the injected error.
func c07ClassifyErr(sc *c07Scn, datas [][]byte, ds []core.Delivery, obs *c07Obs, f *core.Failure) *core.Failure {
	cut := make([][]byte, len(datas))
	for i := range datas {
		cut[i] = datas[i]
		if ds[i].HasErr && ds[i].ErrAt < len(cut[i]) {
			cut[i] = cut[i][:ds[i].ErrAt]
		}
	}
	return c07Classify(sc, cut, obs, nil, f)
}

// c07Classify attaches an open known finding to a failure if its classifier explains it.
func c07Classify(sc *c07Scn, datas [][]byte, obs *c07Obs, refs []*c07Ref, f *core.Failure) *core.Failure {
	rs := string(sc.RS)
	isRegex := len(rs) > 1 && rs != "\n"
	if isRegex && core.IsOpen("F-C07-1R") && len(datas) >= 1 {
		// the run that left the reference split may be the observed one or the one-shot baseline
		// (whose single read is cut by the scanner's own buffer)
		if c07Unstable(rs, datas, obs) || (c07base != nil && c07Unstable(rs, datas, c07base)) {
			f.Known = "F-C07-1R"
		}
	}
	return f
}

// c07base is the one-shot baseline run of the scenario being checked.
var c07base *c07Obs

// c07Unstable implements the classifier Unstable(S) of finding F-C07-1R: at the first
// record where the observed split leaves the reference split there is a buffer boundary b
// such that the non-empty leftmost-longest match on input[s:b] exists, does not end at b,
// and differs from the match on the whole rest input[s:].
func c07Unstable(rs string, datas [][]byte, obs *c07Obs) bool {
	re, err := c07Regexp(rs)
	if err != nil {
		return false
	}
	// walk sources in order
	recIdx := 0
	for si, data := range datas {
		ref, _ := c07Reference(rs, data)
		if ref == nil {
			return false
		}
		pos := 0
		for ri := 0; ri <= len(ref.Recs); ri++ {
			var o *c07Rec
			if recIdx < len(obs.Recs) {
				o = &obs.Recs[recIdx]
			}
			same := ri < len(ref.Recs) && o != nil && o.Rec == ref.Recs[ri].Rec && o.RT == ref.Recs[ri].RT
			if same {
				pos += len(o.Rec) + len(o.RT)
				recIdx++
				continue
			}
			if ri == len(ref.Recs) && (o == nil || si+1 < len(datas)) {
				break // this source agrees entirely
			}
			// first divergence at record start pos of source si
			if si >= len(obs.Bounds) {
				return false
			}
			full := re.FindIndex(data[pos:])
			for _, b := range obs.Bounds[si] {
				if b <= pos || b >= len(data) {
					continue
				}
				part := re.FindIndex(data[pos:b])
				if part == nil || part[0] == part[1] {
					continue
				}
				if part[1] == b-pos {
					continue
				}
				if full == nil || part[0] != full[0] || part[1] != full[1] {
					return true
				}
			}
			return false
		}
	}
	return false
}

func clip(s string, n int) string {
	if len(s) > n {
		return s[:n/2] + "..." + s[len(s)-n/2:] + fmt.Sprintf("(%d bytes)", len(s))
	}
	return s
}

func clipInts(xs []int) string {
	if len(xs) > 24 {
		return fmt.Sprintf("%v...(%d chunks)", xs[:24], len(xs))
	}
	return fmt.Sprint(xs)
}

// ---- shrinking ----

func (c07Engine) Shrink(scAny any) []any {
	sc := scAny.(*c07Scn)
	var out []any
	add := func(f func(c *c07Scn)) {
		c := *sc
		c.Srcs = make([]c07Src, len(sc.Srcs))
		for i := range sc.Srcs {
			c.Srcs[i] = sc.Srcs[i]
			c.Srcs[i].D.Chunks = append([]int(nil), sc.Srcs[i].D.Chunks...)
			c.Srcs[i].Data = append(core.Bytes(nil), sc.Srcs[i].Data...)
		}
		f(&c)
		out = append(out, &c)
	}
	if sc.ViaContext {
		add(func(c *c07Scn) { c.ViaContext = false })
	}
	if sc.Warm {
		add(func(c *c07Scn) { c.Warm, c.WarmRS, c.WarmReset = false, nil, false })
		if sc.WarmReset {
			add(func(c *c07Scn) { c.WarmReset = false })
		}
	}
	// simpler mode / source
	if sc.Mode != "main" || sc.Where != "stdin" {
		add(func(c *c07Scn) {
			c.Mode, c.Where = "main", "stdin"
			c.Srcs = c.Srcs[:1]
		})
	}
	if len(sc.Srcs) > 1 {
		add(func(c *c07Scn) {
			c.Srcs = c.Srcs[:1]
			c.Where = "file"
		})
	}
	for i := range sc.Srcs {
		i := i
		s := sc.Srcs[i]
		if s.PadCount > 0 {
			add(func(c *c07Scn) { c.Srcs[i].PadCount = 0 })
			add(func(c *c07Scn) { c.Srcs[i].PadCount = s.PadCount / 2 })
			add(func(c *c07Scn) { c.Srcs[i].PadCount = s.PadCount - 1 })
		}
		if s.D.HasErr {
			add(func(c *c07Scn) { c.Srcs[i].D.HasErr = false })
		}
		if s.D.EOFWithData {
			add(func(c *c07Scn) { c.Srcs[i].D.EOFWithData = false })
		}
		for _, b := range shrinkBytes(s.Data) {
			b := b
			add(func(c *c07Scn) {
				c.Srcs[i].Data = b
				// keep the schedule within the data
				c.Srcs[i].D.Chunks = fitChunks(c.Srcs[i].D.Chunks, len(b)+len(s.PadUnit)*s.PadCount)
			})
		}
		// delete one byte and shorten the chunk that delivered it, so that the later
		// boundaries stay where they are relative to the data
		if s.PadCount == 0 {
			for k := 0; k < len(s.Data) && k < 64; k++ {
				k := k
				add(func(c *c07Scn) {
					c.Srcs[i].Data = append(append(core.Bytes(nil), s.Data[:k]...), s.Data[k+1:]...)
					pos := 0
					for j, ch := range c.Srcs[i].D.Chunks {
						if k < pos+ch {
							c.Srcs[i].D.Chunks[j] = ch - 1
							break
						}
						pos += ch
					}
					if c.Srcs[i].D.HasErr && c.Srcs[i].D.ErrAt > k {
						c.Srcs[i].D.ErrAt--
					}
				})
			}
		}
		for _, ch := range shrinkInts(s.D.Chunks) {
			ch := ch
			add(func(c *c07Scn) { c.Srcs[i].D.Chunks = ch })
		}
		// replace filler bytes by 'x' to make the input plainer
		for k, b := range s.Data {
			if b != 'x' && k < 48 {
				k := k
				add(func(c *c07Scn) { c.Srcs[i].Data[k] = 'x' })
			}
		}
	}
	return out
}

// fitChunks trims a schedule so that it does not exceed n bytes.
func fitChunks(ch []int, n int) []int {
	var out []int
	left := n
	for _, c := range ch {
		if left <= 0 {
			break
		}
		if c > left {
			c = left
		}
		out = append(out, c)
		left -= c
	}
	return out
}
