package eng

import (
	"bytes"
	"fmt"
	"io"
	"strings"

	"github.com/benhoyt/goawk/interp"
	"github.com/benhoyt/goawk/parser"
	"github.com/benhoyt/goawk/verifharness/core"
)

// ---------------------------------------------------------------------------------------
// C11 — input bookkeeping: NR, FNR, FILENAME, operands, getline, ranges, next, exit.
// Generated programs of a small template language run against an executable model of the
// input cursor; the traces must agree step by step.
// ---------------------------------------------------------------------------------------

type c11Op struct {
	// Kind: trace | getline | getline-var | getline-file | getline-var-file | getline-cmd |
	// getline-cmd-var | next | nextfile | exit | exit-n | assign | if-nr | if-v | loop | call |
	// argv-set | argv-del | argc-set | argv-add
	Kind string  `json:"kind"`
	K    int     `json:"k,omitempty"`
	Name string  `json:"name,omitempty"`
	Sub  []c11Op `json:"sub,omitempty"`
}

type c11Pat struct {
	// Kind: "" (always) | nr | fnr | match | v | fn (a call of a user function that runs Sub and
	// returns K; only as the pattern of a rule that is not a range)
	Kind string  `json:"kind,omitempty"`
	K    int     `json:"k,omitempty"`
	Lit  string  `json:"lit,omitempty"`
	Sub  []c11Op `json:"sub,omitempty"`
}

type c11Rule struct {
	Pat   c11Pat  `json:"pat"`
	Range bool    `json:"range,omitempty"`
	Pat2  c11Pat  `json:"pat2"`
	Body  []c11Op `json:"body"`
}

type c11File struct {
	Name string     `json:"name"`
	Data core.Bytes `json:"data"`
	// Repeat > 1: the content is Data repeated that many times (long inputs)
	Repeat int           `json:"repeat,omitempty"`
	D      core.Delivery `json:"delivery"`
}

func (f *c11File) bytes() []byte {
	if f.Repeat > 1 {
		return bytes.Repeat(f.Data, f.Repeat)
	}
	return f.Data
}

type c11Scn struct {
	Begin  []c11Op       `json:"begin,omitempty"`
	Rules  []c11Rule     `json:"rules,omitempty"`
	End    []c11Op       `json:"end,omitempty"`
	HasEnd bool          `json:"has_end,omitempty"`
	Args   []string      `json:"args,omitempty"`
	Files  []c11File     `json:"files,omitempty"`
	Stdin  core.Bytes    `json:"stdin,omitempty"`
	StdinD core.Delivery `json:"stdin_delivery"`
	CSV    bool          `json:"csv,omitempty"` // CSV input mode (fields split on commas)
}

type c11Trace struct {
	Tag      string
	R        int
	NR, FNR  int
	Filename string
	Rec      string
	NF       int
	V, GV    string
	F1       string
}

func (t c11Trace) String() string {
	return fmt.Sprintf("%s r=%d NR=%d FNR=%d FILENAME=%q $0=%q NF=%d $1=%q v=%q gv=%q", t.Tag, t.R, t.NR, t.FNR, t.Filename, t.Rec, t.NF, t.F1, t.V, t.GV)
}

var c11cur *[]c11Trace

var c11funcs = map[string]any{
	"trace": func(tag string, r, nr, fnr int, filename, rec string, nf int, v, gv, f1 string) {
		*c11cur = append(*c11cur, c11Trace{tag, r, nr, fnr, filename, rec, nf, v, gv, f1})
	},
}

const c11StepCap = 5_000_000
const c11StepCapMsg = "verif: C11 step cap"

type c11Engine struct{}

func init() { core.Register(c11Engine{}) }

func (c11Engine) ID() string               { return "C11" }
func (c11Engine) Level(tier string) string { return "exploration" }
func (c11Engine) Rule() string {
	return "scenario = a program of a template language (BEGIN / up to 4 rules with patterns NR==k, FNR==k, $0~/lit/, v==k or ranges of two / END; bodies of traces, the six getline forms, next, nextfile, exit [n], assignments, the same under if, in loops and inside user functions, BEGIN-time edits of ARGV/ARGC) x an operand list mixing simulated files (some empty, some without final newline), '-', empty strings, var=value and missing files x stdin, every source delivered under a drawn schedule. The trace the real interpreter emits through a native function (NR, FNR, FILENAME, $0, NF, variables, getline results) is compared step by step with an executable model of the input cursor. One evaluation = one execution. Distinct = distinct event-log hash; non-trivial = at least three trace steps and at least one input-consuming operation other than the main loop, or more than one operand."
}
func (c11Engine) Assumptions() []string {
	return []string{
		"covers the template family only (not all AWK programs): deciding the property for arbitrary programs needs a reference AWK evaluator, another technique family",
		"cmd | getline may or may not count in NR (the model resynchronises); FILENAME while reading standard input is taken from the first observation and must then stay constant",
		"main input on stdin is not combined with getline < \"-\"; default FS/RS (plus a CSV-mode variant for the getline forms)",
	}
}
func (c11Engine) Components() map[string]string {
	return map[string]string{
		"main loop, nextLine, getline forms, range patterns, next/nextfile/exit unwinding": "real",
		"files": "real files behind Config.OpenFile (SimFS), delivery shaped through hook H2", "stdin": "stub (SimReader)",
		"commands for cmd|getline": "real processes running stub simsh (free-running)",
	}
}
func (c11Engine) Count(tier string) int {
	if tier == "thorough" {
		return 400000
	}
	return 16000
}
func (c11Engine) BudgetS(tier string) int {
	if tier == "thorough" {
		return 900
	}
	return 50
}
func (c11Engine) Workers(tier string) int { return 0 }
func (c11Engine) NewScenario() any        { return &c11Scn{} }

// ---- generation ----

var c11Lines = []string{"a 1", "bb", "lit x", "", "c d e", "lit", "7", "x,y z", "a:1 b", "p:q:r"}

func c11GenData(r *core.Rand) []byte {
	n := r.Intn(6)
	var sb strings.Builder
	for i := 0; i < n; i++ {
		sb.WriteString(core.Pick(r, c11Lines))
		if i < n-1 || r.Chance(4, 5) {
			sb.WriteString("\n")
		}
	}
	return []byte(sb.String())
}

func c11GenOps(r *core.Rand, ctx string, depth int, allowCmd bool) []c11Op {
	return c11GenOpsL(r, ctx, depth, allowCmd, false)
}

func c11GenOpsL(r *core.Rand, ctx string, depth int, allowCmd, inLoop bool) []c11Op {
	n := r.Range(0, 4)
	if depth == 0 {
		n = r.Range(1, 6)
	}
	var ops []c11Op
	for i := 0; i < n; i++ {
		kinds := []string{"trace", "trace", "getline", "getline-var", "getline-file", "getline-var-file", "exit", "exit-n", "assign", "if-nr", "if-v", "loop", "call", "trace", "dowhile", "forever", "set-field", "set-nf", "close", "drain", "set-fs"}
		if inLoop {
			kinds = append(kinds, "break-if-v", "break-if-v")
		}
		if ctx == "rule" || depth > 0 && ctx == "rulefn" {
			kinds = append(kinds, "next", "nextfile", "next")
		}
		if ctx == "fn" { // inside a function: next/nextfile parse anywhere
			kinds = append(kinds, "next", "nextfile")
		}
		if ctx == "begin" && depth == 0 && !allowCmd {
			kinds = append(kinds, "argv-set", "argv-del", "argc-set", "argv-add")
		}
		if allowCmd {
			kinds = append(kinds, "getline-cmd", "getline-cmd-var")
		}
		op := c11Op{Kind: core.Pick(r, kinds)}
		switch op.Kind {
		case "trace":
			op.K = r.Intn(1000)
		case "getline-file", "getline-var-file":
			op.Name = core.Pick(r, []string{"g1", "g2", "f1", "gmissing"})
		case "getline-cmd", "getline-cmd-var":
			op.Name = core.Pick(r, []string{"c1", "c2"})
		case "exit-n":
			op.K = r.Range(0, 9)
			if r.Chance(1, 5) {
				op.K = core.Pick(r, []int{255, 256, 600, 512, -1, 1000000}) // "the exit status is the last exit value"
			}
		case "assign":
			op.K = r.Range(0, 9)
		case "break-if-v":
			op.K = r.Range(0, 9)
		case "set-field":
			op.K = r.Range(1, 5)
		case "set-nf":
			op.K = r.Range(0, 5)
		case "set-fs":
			op.K = r.Intn(2)
		case "close":
			op.Name = core.Pick(r, []string{"g1", "g2", "f1", "gmissing"})
		case "if-nr", "if-v", "loop", "call", "dowhile", "forever":
			if depth >= 2 {
				op.Kind = "trace"
				op.K = r.Intn(1000)
				break
			}
			op.K = r.Range(1, 3)
			sub := ctx
			subLoop := inLoop || op.Kind == "loop" || op.Kind == "dowhile" || op.Kind == "forever"
			if op.Kind == "call" {
				sub = "fn"
				subLoop = false // break cannot leave a function
			}
			op.Sub = c11GenOpsL(r, sub, depth+1, allowCmd, subLoop)
		case "argv-set":
			op.K = r.Range(1, 4)
			// ("-" is not assigned at run time: a second "-" operand would put a second buffered
			// scanner on standard input, and which one gets which bytes no property specifies)
			op.Name = core.Pick(r, []string{"f1", "f2", "", "v=5", "f3", "0"})
		case "argv-del":
			op.K = r.Range(1, 4)
		case "argc-set":
			op.K = r.Range(1, 4)
		case "argv-add":
			op.Name = core.Pick(r, []string{"f2", "f3"})
		}
		ops = append(ops, op)
	}
	return ops
}

func c11GenPat(r *core.Rand) c11Pat {
	switch r.Intn(6) {
	case 0:
		return c11Pat{Kind: "nr", K: r.Range(1, 5)}
	case 1:
		return c11Pat{Kind: "fnr", K: r.Range(1, 3)}
	case 2:
		return c11Pat{Kind: "match", Lit: core.Pick(r, []string{"lit", "a", "x", "d"})}
	case 3:
		return c11Pat{Kind: "v", K: r.Range(0, 9)}
	}
	return c11Pat{}
}

// c11GenLong draws a long-input scenario: thousands of records abandoned or consumed from
// inside functions and loops (state that only builds up over a long history).
func c11GenLong(r *core.Rand) *c11Scn {
	sc := &c11Scn{}
	n := r.Range(1050, 2600)
	line := core.Pick(r, []string{"a 1\n", "lit x\n", "7\n"})
	sc.Files = []c11File{{Name: "f1", Data: core.Bytes(line), Repeat: n}, {Name: "f2", Data: core.Bytes("bb\nlit\n")},
		{Name: "f3"}, {Name: "g1", Data: core.Bytes("g\n")}, {Name: "g2"}}
	sc.Args = []string{"f1"}
	if r.Bool() {
		sc.Args = append(sc.Args, "f2")
	}
	leave := core.Pick(r, []string{"next", "next", "nextfile", "getline-var", "getline"})
	inner := []c11Op{{Kind: leave}}
	if r.Bool() {
		inner = []c11Op{{Kind: "assign", K: r.Range(0, 9)}, {Kind: leave}}
	}
	body := []c11Op{{Kind: "call", K: 1, Sub: inner}}
	switch r.Intn(4) {
	case 0:
		body = []c11Op{{Kind: "call", K: 1, Sub: []c11Op{{Kind: "call", K: 1, Sub: inner}}}}
	case 1:
		body = []c11Op{{Kind: "loop", K: 2, Sub: []c11Op{{Kind: "call", K: 1, Sub: inner}}}}
	}
	sc.Rules = []c11Rule{{Body: body}}
	if r.Bool() {
		sc.Rules = append(sc.Rules, c11Rule{Pat: c11Pat{Kind: "nr", K: r.Range(900, n)}, Body: []c11Op{{Kind: "trace", K: 1}}})
	}
	sc.HasEnd = true
	sc.End = []c11Op{{Kind: "trace", K: 2}, {Kind: "call", K: 1, Sub: []c11Op{{Kind: "trace", K: 3}}}}
	return sc
}

// c11GenManyRules draws a program with more than 64 pattern-action rules, ranges among the last.
func c11GenManyRules(r *core.Rand) *c11Scn {
	sc := &c11Scn{}
	n := r.Range(66, 90)
	for k := 0; k < n; k++ {
		rule := c11Rule{Pat: c11Pat{Kind: "nr", K: 99}, Body: []c11Op{{Kind: "trace", K: k}}}
		if k >= 60 && r.Chance(1, 2) {
			rule = c11Rule{Pat: c11Pat{Kind: "nr", K: r.Range(1, 3)}, Range: true, Pat2: c11GenPat(r), Body: []c11Op{{Kind: "trace", K: k}}}
			if rule.Pat2.Kind == "" {
				rule.Pat2 = c11Pat{Kind: "fnr", K: r.Range(2, 4)}
			}
		}
		sc.Rules = append(sc.Rules, rule)
	}
	for _, name := range []string{"f1", "f2", "f3", "g1", "g2"} {
		data := c11GenData(r)
		sc.Files = append(sc.Files, c11File{Name: name, Data: data, D: genDelivery(r, len(data))})
	}
	sc.Args = []string{"f1", "f2"}
	sc.HasEnd = true
	sc.End = []c11Op{{Kind: "trace", K: 999}}
	return sc
}

func (c11Engine) Gen(r *core.Rand, tier string, i int) any {
	if r.Chance(1, 40) {
		return c11GenLong(r)
	}
	if r.Chance(1, 60) {
		return c11GenManyRules(r)
	}
	sc := &c11Scn{}
	allowCmd := r.Chance(1, 25)
	if r.Chance(2, 3) {
		sc.Begin = c11GenOps(r, "begin", 0, allowCmd)
	}
	nr := r.Range(0, 4)
	for k := 0; k < nr; k++ {
		rule := c11Rule{Pat: c11GenPat(r), Body: c11GenOps(r, "rule", 0, allowCmd)}
		if r.Chance(1, 8) {
			rule.Pat = c11Pat{Kind: "fn", K: r.Intn(2), Sub: c11GenOpsL(r, "fn", 1, allowCmd, false)}
		} else if r.Chance(1, 4) {
			rule.Range = true
			rule.Pat2 = c11GenPat(r)
			if rule.Pat.Kind == "" {
				rule.Pat = c11Pat{Kind: "nr", K: r.Range(1, 3)}
			}
			if rule.Pat2.Kind == "" {
				rule.Pat2 = c11Pat{Kind: "match", Lit: "lit"}
			}
		}
		sc.Rules = append(sc.Rules, rule)
	}
	if r.Chance(2, 3) {
		sc.HasEnd = true
		sc.End = c11GenOps(r, "end", 0, allowCmd)
	}
	for _, name := range []string{"f1", "f2", "f3", "g1", "g2", "1=x", "/dev/stdin", "0"} {
		data := c11GenData(r)
		sc.Files = append(sc.Files, c11File{Name: name, Data: data, D: genDelivery(r, len(data))})
	}
	sc.Stdin = c11GenData(r)
	sc.StdinD = genDelivery(r, len(sc.Stdin))
	if r.Chance(3, 4) {
		ops := []string{"f1", "f2", "f3", "f1", "", "v=7", "v=3", "fmissing", "NR=10", "1=x", "/dev/stdin", "0"}
		dash := false
		for n := r.Range(1, 5); n > 0; n-- {
			o := core.Pick(r, ops)
			if r.Chance(1, 8) && !dash {
				o, dash = "-", true
			}
			if o == "fmissing" && !r.Chance(1, 4) {
				o = "f2"
			}
			sc.Args = append(sc.Args, o)
		}
	}
	sc.CSV = r.Chance(1, 10)
	if allowCmd {
		// a child started for cmd | getline inherits standard input and may drain it: keep the
		// main input on files
		var args []string
		for _, a := range sc.Args {
			if a != "-" {
				args = append(args, a)
			}
		}
		sc.Args = append([]string{core.Pick(r, []string{"f1", "f2", "f3"})}, args...)
	}
	return sc
}

// ---- program text ----

func c11PatText(p c11Pat) string {
	switch p.Kind {
	case "nr":
		return fmt.Sprintf("NR == %d", p.K)
	case "fnr":
		return fmt.Sprintf("FNR == %d", p.K)
	case "match":
		return fmt.Sprintf("$0 ~ /%s/", p.Lit)
	case "v":
		return fmt.Sprintf("v == %d", p.K)
	}
	return ""
}

type c11Gen struct {
	funcs []string
	n     int
}

const c11TraceArgs = `NR, FNR, FILENAME, $0, NF, v, gv, $1`

func (g *c11Gen) ops(ops []c11Op) string {
	var sb strings.Builder
	for _, op := range ops {
		g.n++
		id := g.n
		switch op.Kind {
		case "trace":
			fmt.Fprintf(&sb, "trace(\"t%d\", 0, %s); ", op.K, c11TraceArgs)
		case "getline":
			fmt.Fprintf(&sb, "r = (getline); trace(\"g%d\", r, %s); ", id, c11TraceArgs)
		case "getline-var":
			fmt.Fprintf(&sb, "r = (getline gv); trace(\"gv%d\", r, %s); ", id, c11TraceArgs)
		case "getline-file":
			fmt.Fprintf(&sb, "r = (getline < \"%s\"); trace(\"gf%d\", r, %s); ", op.Name, id, c11TraceArgs)
		case "getline-var-file":
			fmt.Fprintf(&sb, "r = (getline gv < \"%s\"); trace(\"gvf%d\", r, %s); ", op.Name, id, c11TraceArgs)
		case "getline-cmd":
			fmt.Fprintf(&sb, "r = (%s | getline); trace(\"gc%d\", r, %s); ", op.Name, id, c11TraceArgs)
		case "getline-cmd-var":
			fmt.Fprintf(&sb, "r = (%s | getline gv); trace(\"gvc%d\", r, %s); ", op.Name, id, c11TraceArgs)
		case "next":
			sb.WriteString("next; ")
		case "nextfile":
			sb.WriteString("nextfile; ")
		case "exit":
			sb.WriteString("exit; ")
		case "exit-n":
			fmt.Fprintf(&sb, "exit %d; ", op.K)
		case "assign":
			fmt.Fprintf(&sb, "v = %d; ", op.K)
		case "set-field":
			fmt.Fprintf(&sb, "$%d = \"F\"; ", op.K)
		case "set-nf":
			fmt.Fprintf(&sb, "NF = %d; ", op.K)
		case "set-fs":
			fmt.Fprintf(&sb, "FS = \"%s\"; ", []string{" ", ":"}[op.K%2])
		case "close":
			fmt.Fprintf(&sb, "close(\"%s\"); trace(\"cl%d\", 0, %s); ", op.Name, id, c11TraceArgs)
		case "if-nr":
			fmt.Fprintf(&sb, "if (NR == %d) { %s} ", op.K, g.ops(op.Sub))
		case "if-v":
			fmt.Fprintf(&sb, "if (v == %d) { %s} ", op.K, g.ops(op.Sub))
		case "loop":
			fmt.Fprintf(&sb, "for (i%d = 0; i%d < %d; i%d++) { %s} ", id, id, op.K, id, g.ops(op.Sub))
		case "drain":
			fmt.Fprintf(&sb, "while ((getline) > 0) dn++; trace(\"dr%d\", 0, %s); ", id, c11TraceArgs)
		case "dowhile":
			fmt.Fprintf(&sb, "do { %s} while (0); ", g.ops(op.Sub))
		case "forever":
			fmt.Fprintf(&sb, "for (;;) { %sbreak; } ", g.ops(op.Sub))
		case "break-if-v":
			fmt.Fprintf(&sb, "if (v == %d) break; ", op.K)
		case "call":
			g.funcs = append(g.funcs, fmt.Sprintf("function fn%d() { %s}", id, g.ops(op.Sub)))
			fmt.Fprintf(&sb, "fn%d(); ", id)
		case "argv-set":
			fmt.Fprintf(&sb, "ARGV[%d] = \"%s\"; ", op.K, op.Name)
		case "argv-del":
			fmt.Fprintf(&sb, "delete ARGV[%d]; ", op.K)
		case "argc-set":
			fmt.Fprintf(&sb, "ARGC = %d; ", op.K)
		case "argv-add":
			fmt.Fprintf(&sb, "ARGV[ARGC] = \"%s\"; ARGC++; ", op.Name)
		}
	}
	return sb.String()
}

func c11Source(sc *c11Scn) string {
	g := &c11Gen{}
	var parts []string
	if len(sc.Begin) > 0 {
		parts = append(parts, "BEGIN { "+g.ops(sc.Begin)+"}")
	}
	for i, rule := range sc.Rules {
		pat := c11PatText(rule.Pat)
		if rule.Pat.Kind == "fn" {
			pat = fmt.Sprintf("pf%d()", i)
		}
		if rule.Range {
			pat = pat + ", " + c11PatText(rule.Pat2)
		}
		parts = append(parts, pat+" { "+g.ops(rule.Body)+"}")
	}
	if sc.HasEnd {
		parts = append(parts, "END { "+g.ops(sc.End)+"}")
	}
	// pattern functions come last in the numbering of ops
	for i, rule := range sc.Rules {
		if rule.Pat.Kind == "fn" {
			g.funcs = append(g.funcs, fmt.Sprintf("function pf%d() { %sreturn %d }", i, g.ops(rule.Pat.Sub), rule.Pat.K))
		}
	}
	return strings.Join(append(g.funcs, parts...), "\n")
}

// ---- the model of the input cursor ----

type c11Stream struct {
	lines []string
	pos   int
}

func c11Records(data []byte) []string {
	s := string(data)
	if s == "" {
		return nil
	}
	s = strings.TrimSuffix(s, "\n")
	return strings.Split(s, "\n")
}

// recs splits a source into records: lines; CSV input mode skips blank lines.
func (m *c11Model) recs(data []byte) []string {
	lines := c11Records(data)
	if !m.sc.CSV {
		return lines
	}
	var out []string
	for _, l := range lines {
		if l != "" {
			out = append(out, l)
		}
	}
	return out
}

type c11Model struct {
	sc       *c11Scn
	files    map[string][]byte
	argv     map[int]string
	argc     int
	cursor   int
	hadFiles bool
	cur      *c11Stream // current main input
	onStdin  bool
	stdin    *c11Stream
	streams  map[string]*c11Stream
	nr, fnr  int
	filename string
	rec      string
	nf       int
	fields   []string // the current record's fields (explicit once a field or NF was assigned)
	fs       string   // the value of FS: "" or " " (blanks) or ":"; a record is split with the FS in force when it was read
	v, gv    string
	status   int
	trace    []c11Trace
	inRange  []bool
	errEnd   bool // the run ends with an error
	// stdinOpens counts how often the main input turned to standard input (no operand left, or
	// an operand "-"): the second time puts a second buffered reader on the same stream, and
	// which of the two gets which bytes no property says
	stdinOpens int
	nrSlack    int    // cmd | getline may or may not have counted
	phase      string // begin | rule | end
	n          int
	steps      int
}

type c11Signal int

const (
	sigNone c11Signal = iota
	sigBreak
	sigNext
	sigNextfile
	sigExit
	sigError
)

const c11StdinName = "\x00stdin"

func (m *c11Model) nfOf(rec string) int {
	if m.sc.CSV {
		if rec == "" {
			return 0
		}
		return strings.Count(rec, ",") + 1 // the template's lines contain no quotes
	}
	return len(strings.Fields(rec))
}

// setRec makes rec the current record and splits it.
func (m *c11Model) setRec(rec string) {
	m.rec = rec
	if m.sc.CSV {
		m.fields = nil
		if rec != "" {
			m.fields = strings.Split(rec, ",")
		}
	} else if m.fs == ":" {
		m.fields = nil
		if rec != "" {
			m.fields = strings.Split(rec, ":")
		}
	} else {
		m.fields = strings.Fields(rec)
	}
	m.nf = len(m.fields)
}

// rebuild recomputes $0 from the fields (default OFS).
func (m *c11Model) rebuild() {
	m.rec = strings.Join(m.fields, " ")
	m.nf = len(m.fields)
}

func (m *c11Model) f1() string {
	if len(m.fields) > 0 {
		return m.fields[0]
	}
	return ""
}

func (m *c11Model) f1Of(rec string) string {
	if m.sc.CSV {
		if i := strings.Index(rec, ","); i >= 0 {
			return rec[:i]
		}
		return rec
	}
	if f := strings.Fields(rec); len(f) > 0 {
		return f[0]
	}
	return ""
}

// nextMain returns the next record of the main input: (rec, ok, err)
func (m *c11Model) nextMain() (string, bool, bool) {
	for {
		if m.cur == nil {
			if m.cursor >= m.argc && !m.hadFiles {
				m.cur = m.stdin
				m.stdinOpens++
				m.onStdin = true
				m.filename = c11StdinName
				m.fnr = 0
				m.hadFiles = true
			} else {
				if m.cursor >= m.argc {
					return "", false, false
				}
				name := m.argv[m.cursor]
				m.cursor++
				if i := strings.Index(name, "="); i > 0 && isIdent(name[:i]) {
					switch name[:i] {
					case "v":
						m.v = name[i+1:]
					case "NR":
						fmt.Sscan(name[i+1:], &m.nr)
					}
					continue
				}
				if name == "" {
					continue
				}
				if name == "-" {
					m.cur = m.stdin
					m.stdinOpens++
					m.onStdin = true
					m.filename = c11StdinName
					m.fnr = 0
					m.hadFiles = true
				} else {
					data, ok := m.files[name]
					if !ok {
						return "", false, true // missing file: error
					}
					m.cur = &c11Stream{lines: m.recs(data)}
					m.onStdin = false
					m.filename = name
					m.fnr = 0
					m.hadFiles = true
				}
			}
		}
		if m.cur.pos < len(m.cur.lines) {
			rec := m.cur.lines[m.cur.pos]
			m.cur.pos++
			m.nr++
			m.fnr++
			return rec, true, false
		}
		m.cur = nil
	}
}

func isIdent(s string) bool {
	for i, c := range s {
		if !(c == '_' || c >= 'a' && c <= 'z' || c >= 'A' && c <= 'Z' || i > 0 && c >= '0' && c <= '9') {
			return false
		}
	}
	return s != ""
}

func (m *c11Model) emit(tag string, r int) {
	m.trace = append(m.trace, c11Trace{tag, r, m.nr, m.fnr, m.filename, m.rec, m.nf, m.v, m.gv, m.f1()})
}

func (m *c11Model) stream(name string) (*c11Stream, bool) {
	if s, ok := m.streams[name]; ok {
		return s, true
	}
	var lines []string
	switch name {
	case "c1":
		lines = []string{"from c1", "second c1"}
	case "c2":
		lines = []string{"from c2"}
	default:
		data, ok := m.files[name]
		if !ok {
			return nil, false
		}
		lines = m.recs(data)
	}
	s := &c11Stream{lines: lines}
	m.streams[name] = s
	return s, true
}

func (m *c11Model) run(ops []c11Op) c11Signal {
	for _, op := range ops {
		m.n++
		id := m.n
		m.steps++
		if m.steps > 20000 {
			return sigError
		}
		switch op.Kind {
		case "trace":
			m.emit(fmt.Sprintf("t%d", op.K), 0)
		case "getline", "getline-var":
			rec, ok, isErr := m.nextMain()
			r := 0
			switch {
			case isErr:
				r = -1
			case ok:
				r = 1
				if op.Kind == "getline" {
					m.setRec(rec)
				} else {
					m.gv = rec
				}
			}
			if op.Kind == "getline" {
				m.emit(fmt.Sprintf("g%d", id), r)
			} else {
				m.emit(fmt.Sprintf("gv%d", id), r)
			}
		case "getline-file", "getline-var-file", "getline-cmd", "getline-cmd-var":
			s, ok := m.stream(op.Name)
			r := 0
			if !ok {
				r = -1
			} else if s.pos < len(s.lines) {
				rec := s.lines[s.pos]
				s.pos++
				r = 1
				if op.Kind == "getline-file" || op.Kind == "getline-cmd" {
					m.setRec(rec)
				} else {
					m.gv = rec
				}
				if strings.HasPrefix(op.Kind, "getline-cmd") {
					m.nrSlack++
				}
			}
			tag := map[string]string{"getline-file": "gf", "getline-var-file": "gvf", "getline-cmd": "gc", "getline-cmd-var": "gvc"}[op.Kind]
			m.emit(fmt.Sprintf("%s%d", tag, id), r)
		case "next":
			if m.phase != "rule" {
				return sigError
			}
			return sigNext
		case "nextfile":
			if m.phase != "rule" {
				return sigError
			}
			return sigNextfile
		case "exit":
			return sigExit
		case "exit-n":
			m.status = op.K
			return sigExit
		case "assign":
			m.v = fmt.Sprint(op.K)
		case "drain":
			for {
				rec, ok, isErr := m.nextMain()
				if isErr || !ok {
					break
				}
				m.setRec(rec)
			}
			m.emit(fmt.Sprintf("dr%d", id), 0)
		case "set-field":
			for len(m.fields) < op.K {
				m.fields = append(m.fields, "")
			}
			m.fields = append([]string(nil), m.fields...)
			m.fields[op.K-1] = "F"
			m.rebuild()
		case "set-nf":
			f := append([]string(nil), m.fields...)
			for len(f) < op.K {
				f = append(f, "")
			}
			m.fields = f[:op.K]
			m.rebuild()
		case "set-fs":
			m.fs = []string{" ", ":"}[op.K%2] // takes effect with the next record that is read into $0
		case "close":
			delete(m.streams, op.Name)
			m.emit(fmt.Sprintf("cl%d", id), 0)
		case "if-nr":
			if m.nr == op.K {
				if sig := m.run(op.Sub); sig != sigNone {
					return sig
				}
			} else {
				m.n += c11Count(op.Sub)
			}
		case "if-v":
			if c11NumEq(m.v, op.K) {
				if sig := m.run(op.Sub); sig != sigNone {
					return sig
				}
			} else {
				m.n += c11Count(op.Sub)
			}
		case "loop":
			base := m.n
			for i := 0; i < op.K; i++ {
				m.n = base
				sig := m.run(op.Sub)
				if sig == sigBreak {
					break
				}
				if sig != sigNone {
					return sig
				}
			}
			m.n = base + c11Count(op.Sub)
		case "call":
			if sig := m.run(op.Sub); sig != sigNone {
				return sig
			}
		case "dowhile", "forever":
			// the body runs once (forever ends with a break); a break inside leaves the loop early
			base := m.n
			if sig := m.run(op.Sub); sig != sigNone && sig != sigBreak {
				return sig
			}
			m.n = base + c11Count(op.Sub)
		case "break-if-v":
			if c11NumEq(m.v, op.K) {
				return sigBreak
			}
		case "argv-set":
			m.argv[op.K] = op.Name
		case "argv-del":
			delete(m.argv, op.K)
		case "argc-set":
			m.argc = op.K
		case "argv-add":
			m.argv[m.argc] = op.Name
			m.argc++
		}
	}
	return sigNone
}

// c11Count is the number of op ids a skipped block consumes in the generated text.
func c11Count(ops []c11Op) int {
	n := 0
	for _, op := range ops {
		n += 1 + c11Count(op.Sub)
	}
	return n
}

func c11NumEq(v string, k int) bool {
	// v is "", or an integer literal (assignments and var=value operands of the template)
	if v == "" {
		return k == 0
	}
	return v == fmt.Sprint(k)
}

func (m *c11Model) match(p c11Pat) bool {
	switch p.Kind {
	case "nr":
		return m.nr == p.K
	case "fnr":
		return m.fnr == p.K
	case "match":
		return strings.Contains(m.rec, p.Lit)
	case "v":
		return c11NumEq(m.v, p.K)
	}
	return true
}

// c11RunModel executes the scenario on the model.
func c11RunModel(sc *c11Scn) *c11Model {
	m := &c11Model{sc: sc, files: map[string][]byte{}, argv: map[int]string{}, streams: map[string]*c11Stream{}}
	for i := range sc.Files {
		m.files[sc.Files[i].Name] = sc.Files[i].bytes()
	}
	m.stdin = &c11Stream{lines: m.recs(sc.Stdin)}
	for i, a := range sc.Args {
		m.argv[i+1] = a
	}
	m.argc = len(sc.Args) + 1
	m.cursor = 1
	m.inRange = make([]bool, len(sc.Rules))
	// The generated text numbers ops in the order functions... ids are assigned in text
	// generation order: BEGIN ops first (depth-first), then rules, then END; the model
	// must assign the same ids, so it walks in the same order via explicit bases.
	base := 0
	m.phase = "begin"
	m.n = base
	sig := m.run(sc.Begin)
	base += c11Count(sc.Begin)
	ruleBase := make([]int, len(sc.Rules))
	for i, r := range sc.Rules {
		ruleBase[i] = base
		base += c11Count(r.Body)
	}
	endBase := base
	if sc.HasEnd {
		base += c11Count(sc.End)
	}
	patBase := make([]int, len(sc.Rules))
	for i, r := range sc.Rules {
		patBase[i] = base
		if r.Pat.Kind == "fn" {
			base += c11Count(r.Pat.Sub)
		}
	}
	if sig == sigError || sig == sigNext || sig == sigNextfile {
		m.errEnd = true
		return m
	}
	if len(sc.Rules) == 0 && !sc.HasEnd {
		return m
	}
	if sig != sigExit {
		m.phase = "rule"
	records:
		for {
			rec, ok, isErr := m.nextMain()
			if isErr {
				m.errEnd = true
				return m
			}
			if !ok {
				break
			}
			m.setRec(rec)
			for i, rule := range sc.Rules {
				matched := false
				if !rule.Range && rule.Pat.Kind == "fn" {
					// the pattern calls a function: whatever ends the function's body early
					// (next, nextfile, exit, an error) acts as it does in an action
					m.n = patBase[i]
					switch m.run(rule.Pat.Sub) {
					case sigNext:
						continue records
					case sigNextfile:
						m.cur = nil
						continue records
					case sigExit:
						break records
					case sigError:
						m.errEnd = true
						return m
					}
					matched = rule.Pat.K != 0
				} else if !rule.Range {
					matched = m.match(rule.Pat)
				} else {
					if !m.inRange[i] {
						m.inRange[i] = m.match(rule.Pat)
					}
					matched = m.inRange[i]
					if m.inRange[i] {
						m.inRange[i] = !m.match(rule.Pat2)
					}
				}
				if !matched {
					continue
				}
				m.n = ruleBase[i]
				switch m.run(rule.Body) {
				case sigNext:
					continue records
				case sigNextfile:
					m.cur = nil
					continue records
				case sigExit:
					break records
				case sigError:
					m.errEnd = true
					return m
				}
			}
		}
	}
	if sc.HasEnd {
		m.phase = "end"
		m.n = endBase
		if s := m.run(sc.End); s == sigError || s == sigNext || s == sigNextfile {
			m.errEnd = true
		}
	}
	return m
}

// ---- execution on the real interpreter ----

func (e c11Engine) Run(scAny any, keep bool) (out core.Outcome) {
	sc := scAny.(*c11Scn)
	log := core.NewLog(keep)
	src := c11Source(sc)
	prog, perr := parser.ParseProgram([]byte(src), &parser.ParserConfig{Funcs: c11funcs})
	if perr != nil {
		if core.Shrinking {
			return out // a shrink candidate moved next/nextfile out of a function: not a program of the family
		}
		// the template only produces text the parser is known to accept; anything else is a harness bug
		core.Fatal("C11: generated program does not parse: %v\n%s", perr, src)
	}
	var trace []c11Trace
	c11cur = &trace
	fs, err := core.NewSimFS(scratchBase(), nil)
	if err != nil {
		core.Fatal("C11: simfs: %v", err)
	}
	defer fs.Remove()
	deliveries := map[string]core.Delivery{}
	for i := range sc.Files {
		f := &sc.Files[i]
		_ = fs.Put(f.Name, f.bytes())
		deliveries[f.Name] = f.D
	}
	// the world also holds files whose names look like assignment operands: an operand of the
	// form var=value is an assignment whether or not such a file exists
	for _, n := range []string{"v=7", "v=3", "v=5", "NR=10"} {
		_ = fs.Put(n, []byte("decoy line\n"))
	}
	stats := &core.ReaderStats{}
	stdin := core.NewSimReader("stdin", sc.Stdin, sc.StdinD, stats, nil)
	cfg := &interp.Config{Stdin: stdin, Output: io.Discard, Error: io.Discard, Funcs: c11funcs, Environ: []string{},
		Args: sc.Args, OpenFile: fs.Open, ShellCommand: []string{simshPath(), "-"},
		Vars: []string{"c1", "c1;emit:from c1\nsecond c1\n;exit:0", "c2", "c2;emit:from c2\n;exit:0"}}
	if sc.CSV {
		cfg.InputMode = interp.CSVMode
	}
	interp.VerifWrapReader = func(r io.Reader) io.Reader {
		if _, ok := r.(*core.SimReader); ok {
			return r
		}
		name := fs.LastOpened
		d, ok := deliveries[name]
		if !ok {
			return r // a command's pipe
		}
		fs.LastOpened = ""
		return &core.ShapedReader{Under: r, Name: name, D: d, Stats: stats, Log: nil}
	}
	defer func() { interp.VerifWrapReader = nil }()
	steps := 0
	interp.VerifStep = func(kind interp.VerifStepKind) {
		steps++
		if steps > c11StepCap {
			panic(c11StepCapMsg)
		}
	}
	defer func() { interp.VerifStep = nil }()
	res := execProgram(prog, cfg)
	model := c11RunModel(sc)
	if model.stdinOpens > 1 {
		out.One(log.Hash(), false)
		out.Probe("runs_that_open_standard_input_twice_unspecified", 1)
		return out
	}
	for _, t := range trace {
		log.Add(t.String())
	}
	log.Addf("status=%d err=%q panic=%q", res.Status, res.errString(), res.Panic)
	consuming := false
	for _, t := range trace {
		if strings.HasPrefix(t.Tag, "g") {
			consuming = true
		}
	}
	out.One(log.Hash(), len(trace) >= 3 && (consuming || len(sc.Args) > 1))
	out.SimTime = int64(steps)
	out.Probe("reads", stats.Reads)
	if keep {
		out.Log = log.Lines
	}
	desc := fmt.Sprintf("args=%q csv=%v stdin=%q files=%s\nprogram:\n%s", sc.Args, sc.CSV, string(sc.Stdin), c11FilesString(sc), src)
	fail := func(oracle, detail string) core.Outcome {
		out.Fail = &core.Failure{Oracle: oracle, Detail: detail + "\n" + desc}
		return out
	}
	if strings.HasPrefix(res.Panic, c11StepCapMsg) {
		// every loop of the template language is bounded and the model has finished: a program
		// that is still executing after millions of VM steps does not follow it
		return fail("does-not-terminate", fmt.Sprintf("the program was still running after %d VM steps (the longest run of the unchanged tree takes under 2 million); the model ends after %d trace steps with status %d", c11StepCap, len(model.trace), model.status))
	}
	if res.Panic != "" {
		return fail("panic", res.Panic)
	}
	// compare the traces step by step
	stdinName, haveStdinName := "", false
	nrOff := 0
	for i := 0; i < len(trace) || i < len(model.trace); i++ {
		if i >= len(model.trace) {
			return fail("trace", fmt.Sprintf("step %d: the program emitted %s, the model ended after %d steps", i+1, trace[i], len(model.trace)))
		}
		w := model.trace[i]
		if i >= len(trace) {
			if model.errEnd && res.Err != nil {
				break // an error may cut the trace short? no: the model knows where the run ends
			}
			return fail("trace", fmt.Sprintf("step %d: the model expects %s, the program's trace ended after %d steps (status=%d err=%v)", i+1, w, len(trace), res.Status, res.Err))
		}
		g := trace[i]
		if w.Filename == c11StdinName {
			if !haveStdinName {
				stdinName, haveStdinName = g.Filename, true
			}
			w.Filename = stdinName
		}
		// cmd | getline may count in NR or not: resynchronise once per such read
		w.NR += nrOff
		w.FNR += nrOff
		if (strings.HasPrefix(w.Tag, "gc") || strings.HasPrefix(w.Tag, "gvc")) && w.R == 1 && g.NR == w.NR+1 && g.FNR == w.FNR+1 {
			nrOff++
			w.NR++
			w.FNR++
		}
		if g != w {
			return fail("trace", fmt.Sprintf("step %d differs:\n  program: %s\n  model:   %s", i+1, g, w))
		}
	}
	if model.errEnd {
		if res.Err == nil {
			return fail("error-expected", fmt.Sprintf("the model ends this run with an error (missing operand file, or next/nextfile reached from BEGIN/END); the program returned status %d and no error", res.Status))
		}
		out.Probe("runs_ending_with_expected_error", 1)
		return out
	}
	if res.Err != nil {
		return fail("unexpected-error", "the program failed: "+res.Err.Error())
	}
	if res.Status != model.status {
		return fail("exit-status", fmt.Sprintf("exit status %d, the model says %d", res.Status, model.status))
	}
	out.Probe("trace_steps_compared", len(trace))
	return out
}

func c11FilesString(sc *c11Scn) string {
	var parts []string
	for _, f := range sc.Files {
		if f.Repeat > 1 {
			parts = append(parts, fmt.Sprintf("%s=%q x%d", f.Name, string(f.Data), f.Repeat))
			continue
		}
		parts = append(parts, fmt.Sprintf("%s=%q", f.Name, string(f.Data)))
	}
	return strings.Join(parts, " ")
}

// ---- shrinking ----

func c11ShrinkOps(ops []c11Op) [][]c11Op {
	var out [][]c11Op
	for i := range ops {
		c := append(append([]c11Op(nil), ops[:i]...), ops[i+1:]...)
		out = append(out, c)
	}
	for i, op := range ops {
		if len(op.Sub) > 0 {
			// replace the block by its body
			c := append(append(append([]c11Op(nil), ops[:i]...), op.Sub...), ops[i+1:]...)
			out = append(out, c)
			for _, s := range c11ShrinkOps(op.Sub) {
				c := append([]c11Op(nil), ops...)
				c[i].Sub = s
				out = append(out, c)
			}
		}
	}
	return out
}

func (c11Engine) Shrink(scAny any) []any {
	sc := scAny.(*c11Scn)
	var out []any
	clone := func() *c11Scn {
		c := *sc
		c.Rules = append([]c11Rule(nil), sc.Rules...)
		c.Args = append([]string(nil), sc.Args...)
		c.Files = append([]c11File(nil), sc.Files...)
		return &c
	}
	for i := range sc.Rules {
		c := clone()
		c.Rules = append(c.Rules[:i:i], c.Rules[i+1:]...)
		out = append(out, c)
	}
	if len(sc.Begin) > 0 {
		c := clone()
		c.Begin = nil
		out = append(out, c)
	}
	if sc.HasEnd {
		c := clone()
		c.HasEnd, c.End = false, nil
		out = append(out, c)
	}
	for i := range sc.Args {
		c := clone()
		c.Args = append(c.Args[:i:i], c.Args[i+1:]...)
		out = append(out, c)
	}
	for _, ops := range c11ShrinkOps(sc.Begin) {
		c := clone()
		c.Begin = ops
		out = append(out, c)
	}
	for i, rule := range sc.Rules {
		for _, ops := range c11ShrinkOps(rule.Body) {
			c := clone()
			c.Rules[i].Body = ops
			out = append(out, c)
		}
		if rule.Range {
			c := clone()
			c.Rules[i].Range = false
			out = append(out, c)
		}
		if rule.Pat.Kind != "" && !rule.Range {
			c := clone()
			c.Rules[i].Pat = c11Pat{}
			out = append(out, c)
		}
		if rule.Pat.Kind == "fn" {
			for _, ops := range c11ShrinkOps(rule.Pat.Sub) {
				c := clone()
				c.Rules[i].Pat.Sub = ops
				out = append(out, c)
			}
		}
	}
	for _, ops := range c11ShrinkOps(sc.End) {
		c := clone()
		c.End = ops
		out = append(out, c)
	}
	for i, f := range sc.Files {
		if f.Repeat > 1 {
			for _, n := range []int{f.Repeat / 2, f.Repeat - 1} {
				if n >= 1 {
					c := clone()
					c.Files[i].Repeat = n
					out = append(out, c)
				}
			}
			continue
		}
		if len(f.D.Chunks) > 0 || f.D.EOFWithData {
			c := clone()
			c.Files[i].D = core.Delivery{}
			out = append(out, c)
		}
		recs := c11Records(f.Data)
		for k := range recs {
			c := clone()
			nr := append(append([]string(nil), recs[:k]...), recs[k+1:]...)
			data := strings.Join(nr, "\n")
			if len(nr) > 0 {
				data += "\n"
			}
			c.Files[i].Data = core.Bytes(data)
			c.Files[i].D = core.Delivery{}
			out = append(out, c)
		}
	}
	if len(sc.StdinD.Chunks) > 0 || sc.StdinD.EOFWithData {
		c := clone()
		c.StdinD = core.Delivery{}
		out = append(out, c)
	}
	if len(sc.Stdin) > 0 {
		c := clone()
		c.Stdin, c.StdinD = nil, core.Delivery{}
		out = append(out, c)
	}
	if sc.CSV {
		c := clone()
		c.CSV = false
		out = append(out, c)
	}
	return out
}
