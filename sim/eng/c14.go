package eng

import (
	"context"
	"fmt"
	"io"
	"os"
	"sort"
	"strings"
	"unicode/utf8"

	"github.com/benhoyt/goawk/interp"
	"github.com/benhoyt/goawk/parser"
	"github.com/benhoyt/goawk/verifharness/core"
)

// ---------------------------------------------------------------------------------------
// C14 — a reused Interpreter behaves like a fresh one.
// ---------------------------------------------------------------------------------------

const c14Prog = `
function deep(n, arr,   loc, k, cnt) {
	cnt = 0; for (k in loc) cnt++
	if (cnt) obs("stale-local", cnt)
	loc[n] = n; arr["d" n] = n
	if (n > 0) return deep(n - 1, arr) + 1
	if (act == "failfn") fail("boom")
	if (act == "divfn") return 1 / zero
	if (act == "exitfn") exit 7
	if (act == "cancelfn") cancel()
	if (act == "nextfn") next
	return 0
}
function observe(tag) {
	obs(tag ".$0", $0); obs(tag ".NF", NF); obs(tag ".$1", $1); obs(tag ".$2", $2)
	obs(tag ".NR", NR); obs(tag ".FNR", FNR); obs(tag ".FILENAME", FILENAME)
	obs(tag ".RSTART", RSTART); obs(tag ".RLENGTH", RLENGTH)
	obs(tag ".INPUTMODE", INPUTMODE); obs(tag ".OUTPUTMODE", OUTPUTMODE)
	# CSV/TSV input mode: an assigned $0 is parsed again, with this run's separator and comment character
	if (INPUTMODE != "") { osave = $0; $0 = "#tag,y z\tw"; obs(tag ".reparse", NF ":" $1); $0 = osave }
}
function observevars(tag,   k, n) {
	obs(tag ".g1", g1); obs(tag ".g2", g2); obs(tag ".x", x); obs(tag ".line", line); obs(tag ".recs", recs)
	n = 0; for (k in garr) n++; obs(tag ".len(garr)", n)
	obs(tag ".FS", FS); obs(tag ".OFS", OFS); obs(tag ".ORS", ORS); obs(tag ".RS", RS); obs(tag ".SUBSEP", SUBSEP)
	obs(tag ".CONVFMT", CONVFMT); obs(tag ".OFMT", OFMT); obs(tag ".RT", RT)
	n = 0; for (k in ARGV) n++; obs(tag ".len(ARGV)", n)
	n = 0; for (k in ENVIRON) n++; obs(tag ".len(ENVIRON)", n)
	n = 0; for (k in FIELDS) n++; obs(tag ".len(FIELDS)", n)
	obs(tag ".ARGC", ARGC)
}
BEGIN {
	if (defaults) { FS = " "; OFS = " "; ORS = "\n"; RS = "\n"; SUBSEP = "\034"; CONVFMT = "%.6g"; OFMT = "%.6g" }
	if (probe) observe("begin")
	if (probevars) observevars("begin")
	if (act == "setmodes") { INPUTMODE = "csv"; OUTPUTMODE = "tsv"; FS = ":"; OFS = "-"; RS = ";"; ORS = "!"; SUBSEP = "|"; CONVFMT = "%.2g"; OFMT = "%.3g" }
	if (act == "divbegin") x = 1 / zero
	if (act == "exitbegin") exit 4
	if (act == "srandonly") srand(5)
	if (act == "setrecbegin") { $0 = "#tag,y z"; obs("setrec.NF", NF); obs("setrec.$1", $1) }
	if (act == "splitargv") { split("zz yy", ARGV); split("k v", ENVIRON) }
	if (usegetline) {
		if ((getline line < "in1") > 0) obs("getline.in1", line)
		# two more streams read alternately (each scanner has its own buffer)
		for (gi = 0; gi < 2; gi++) {
			if ((getline ga < "in2") > 0) obs("getline.in2", ga)
			if ((getline gb < "in1") > 0) obs("getline.in1b", gb)
		}
		if (act == "closecmd") close("in2")
	}
	if (usefiles) {
		printf "%s", "w1" > "out1"
		print "a" >> "out2"
		print 1, 0.5
	}
	if (usestdin) { if ((getline line < "-") > 0) obs("getline.-", line) }
	if (usecmd) {
		if ((cmdin | getline line) > 0) obs("cmd.getline", line)
		print "tocmd" | cmdout
		if (act == "closecmd") obs("close", close(cmdout))
	}
	if (userand) { obs("rand1", rand()); if (act == "srand") srand(42); obs("rand2", rand()) }
	if (usematch) {
		match("xxabcxx", /abc/)
		# values that depend on per-run configuration (Chars) or on per-interpreter caches
		obs("fmt", sprintf("%c|%c|%5.2f|%d|%s", 321, "\303\251t\303\251", 3.14159, 42.9, "x"))
		obs("len", length("\303\251t\303\251") ":" index("a\303\251b", "b") ":" substr("\303\251t\303\251", 2, 1))
		obs("dynre", ("abc" ~ dyn) ":" gsub(dyn, "[&]", target) ":" target)
	}
	g1 = g1 "b"; garr["b" NR] = 1
	if (act == "forin") { for (k in garr) { x = 1 / zero } }
	if (usedeep) obs("deep", deep(depth, garr))
	if (act == "getlinebegin") { getline; obs("getline.main", $0) }
	if (probe) observe("begin2")
}
usename { obs("name", @"a") }
userec && /s1/, /zz/ { obs("inrange", NR ":" $0) }
{
	recs++
	if (userec) { obs("rec.$0", $0); obs("rec.NF", NF); obs("rec.$1", $1); obs("rec.NR", NR); obs("rec.FNR", FNR); obs("rec.FILENAME", FILENAME) }
	g2 = g2 $1
	if (act == "exitrule" && NR == 2) exit 5
	if (act == "divrule" && NR == 2) x = 1 / zero
	if (act == "cancelrule" && NR == 2) cancel()
	if (act == "failrule" && NR == 2) fail("boom")
	if (act == "deeprule" && NR == 2) deep(depth, garr)
	if (act == "getlinerule" && NR == 1) getline
	if (act == "matchrule") match($0, /[0-9]+/)
	if (act == "setrec" && NR == 1) { $0 = "#tag,y z"; obs("setrec.NF", NF); obs("setrec.$1", $1) }
	print "r:" $0
}
END {
	if (probe) observe("end")
	if (probevars) observevars("end")
	if (act == "divend") x = 1 / zero
	if (act == "exitend") exit 6
	print "end", NR
}
`

var c14Acts = []string{"", "", "", "srandonly", "splitargv", "setmodes", "divbegin", "exitbegin", "closecmd", "srand", "forin", "getlinebegin",
	"failfn", "divfn", "exitfn", "cancelfn", "nextfn", "exitrule", "divrule", "cancelrule", "failrule", "deeprule", "getlinerule", "matchrule", "divend", "exitend", "setrec", "setrecbegin"}

type c14Run struct {
	Act        string `json:"act,omitempty"`
	Probe      bool   `json:"probe,omitempty"`
	ProbeVars  bool   `json:"probevars,omitempty"`
	Defaults   bool   `json:"defaults,omitempty"`
	UseFiles   bool   `json:"usefiles,omitempty"`
	UseGetline bool   `json:"usegetline,omitempty"`
	UseStdin   bool   `json:"usestdin,omitempty"`
	UseCmd     bool   `json:"usecmd,omitempty"`
	UseRand    bool   `json:"userand,omitempty"`
	UseMatch   bool   `json:"usematch,omitempty"`
	UseDeep    bool   `json:"usedeep,omitempty"`
	UseName    bool   `json:"usename,omitempty"`
	UseRec     bool   `json:"userec,omitempty"`
	Depth      int    `json:"depth,omitempty"`

	Stdin  core.Bytes    `json:"stdin,omitempty"`
	StdinD core.Delivery `json:"stdin_delivery"`
	Args   []string      `json:"args,omitempty"`

	InputMode  string `json:"input_mode,omitempty"` // "", csv, tsv
	Header     bool   `json:"header,omitempty"`
	CSVSep     string `json:"csv_sep,omitempty"`
	CSVComment string `json:"csv_comment,omitempty"`
	OutputMode string `json:"output_mode,omitempty"`

	NoExec       bool `json:"noexec,omitempty"`
	NoFileWrites bool `json:"nofilewrites,omitempty"`
	NoFileReads  bool `json:"nofilereads,omitempty"`
	Chars        bool `json:"chars,omitempty"`
	CRLF         bool `json:"crlf,omitempty"`
	NoArgVars    bool `json:"noargvars,omitempty"`
	// EnvNil: Config.Environ is nil (the interpreter loads the process environment itself)
	EnvNil bool `json:"env_nil,omitempty"`

	// Ctx: "" = Execute; "never" = ExecuteContext never cancelled; "pre" = already cancelled;
	// "step" = cancelled by the simulator before VM step CancelStep; "deadline" = same with DeadlineExceeded
	Ctx        string `json:"ctx,omitempty"`
	CancelStep int    `json:"cancel_step,omitempty"`

	OutFail   bool `json:"out_fail,omitempty"`
	OutFailAt int  `json:"out_fail_at,omitempty"`
	BadVars   bool `json:"bad_vars,omitempty"`
	// BadMode: Vars assign record-state specials (NR, FNR, RSTART, $0-related NF) and then an
	// invalid OUTPUTMODE: the configuration is rejected after part of it has been applied
	BadMode bool `json:"bad_mode,omitempty"`
	// NilOpen: Config.OpenFile is nil (os.OpenFile; the run happens in a working directory that
	// holds the same files under their plain names); NilShell: Config.ShellCommand is nil (/bin/sh)
	NilOpen   bool     `json:"nil_open,omitempty"`
	NilShell  bool     `json:"nil_shell,omitempty"`
	BadSep    bool     `json:"bad_sep,omitempty"`
	Environ   []string `json:"environ,omitempty"`
	ExtraVars []string `json:"extra_vars,omitempty"`
}

type c14Scn struct {
	// SameSink: the reused Interpreter writes to the very same writer object in every run
	SameSink bool `json:"same_sink,omitempty"`
	// SameConfig: every run of the reused Interpreter gets the very same *Config value, rewritten in between
	SameConfig bool     `json:"same_config,omitempty"`
	ResetVars  bool     `json:"reset_vars"`
	ResetRand  bool     `json:"reset_rand"`
	Runs       []c14Run `json:"runs"`
}

// c14Result is everything observable about one execution.
type c14Result struct {
	Obs    []string
	Stdout string
	Stderr string
	Status int
	Err    string
	Panic  string
	Files  string
	Steps  int
	Fired  map[string]int
}

func (r *c14Result) String() string {
	return fmt.Sprintf("status=%d err=%q panic=%q stdout=%q stderr=%q files=%s obs=%q", r.Status, r.Err, r.Panic, r.Stdout, r.Stderr, r.Files, r.Obs)
}

type c14State struct {
	obs []string
	ctx *core.SimContext
}

var c14cur *c14State

var c14funcs = map[string]any{
	"obs": func(tag, val string) { c14cur.obs = append(c14cur.obs, tag+"="+val) },
	"fail": func(msg string) (int, error) {
		return 0, fmt.Errorf("native failure: %s", msg)
	},
	"cancel": func() {
		if c14cur.ctx != nil {
			c14cur.ctx.Cancel(context.Canceled)
		}
	},
}

func c14Program() *parser.Program {
	p, err := parse("c14", c14Prog, c14funcs)
	if err != nil {
		core.Fatal("C14: parse: %v", err)
	}
	return p
}

func b2s(b bool) string {
	if b {
		return "1"
	}
	return "0"
}

// c14Exec performs one run on the given interpreter in a fresh simulated world.
func c14Exec(it *interp.Interpreter, run *c14Run, log *core.Log, shared *core.SimSink, slot *interp.Config) *c14Result {
	res := &c14Result{Fired: map[string]int{}}
	st := &c14State{}
	c14cur = st
	fs, err := core.NewSimFS(scratchBase(), log)
	if err != nil {
		core.Fatal("C14: simfs: %v", err)
	}
	defer fs.Remove()
	_ = fs.Put("in1", []byte("l1 a\nl2 b\nl3 c\n"))
	_ = fs.Put("in2", []byte("m1 m2\nm3\n"))
	_ = fs.Put("csv1", []byte("a,b\n1,2\n3,4\n"))
	_ = fs.Put("out2", []byte("old\n"))
	stdout := core.NewSimSink("stdout", log)
	base := 0
	if shared != nil {
		stdout = shared
		base = len(stdout.Bytes())
		stdout.FailAt = -1
	}
	if run.OutFail {
		stdout.FailAt = base + run.OutFailAt
	}
	stderr := core.NewSimSink("stderr", nil)
	stats := &core.ReaderStats{}
	stdin := core.NewSimReader("stdin", run.Stdin, run.StdinD, stats, log)
	var stdinR io.Reader = stdin
	if run.UseCmd {
		// children started by cmd | getline and system() inherit Config.Stdin; with a reader
		// that is not a file os/exec would copy it concurrently with the interpreter's reads.
		// A real file makes the sharing what it is for a CLI user: one descriptor.
		_ = fs.Put("!stdin", run.Stdin)
		f, err := os.Open(fs.Path("!stdin"))
		if err != nil {
			core.Fatal("C14: stdin file: %v", err)
		}
		_ = os.Remove(fs.Path("!stdin"))
		stdinR = f
	}
	cfg := &interp.Config{
		Stdin: stdinR, Output: stdout, Error: stderr, Funcs: c14funcs,
		Args: run.Args, NoArgVars: run.NoArgVars,
		NoExec: run.NoExec, NoFileWrites: run.NoFileWrites, NoFileReads: run.NoFileReads,
		Chars: run.Chars, OpenFile: fs.Open, ShellCommand: []string{simshPath(), "-"},
		Environ: run.Environ, NewlineOutput: interp.RawNewlineMode,
	}
	if cfg.Environ == nil && !run.EnvNil {
		cfg.Environ = []string{}
	}
	cwdDir := ""
	if run.NilOpen {
		cfg.OpenFile = nil
		d, derr := os.MkdirTemp(scratchBase(), "c14cwd")
		if derr != nil {
			core.Fatal("C14: cwd: %v", derr)
		}
		cwdDir = d
		for _, name := range []string{"in1", "in2", "csv1", "out2"} {
			b, _ := fs.Get(name)
			_ = os.WriteFile(d+"/"+name, b, 0644)
		}
		old, _ := os.Getwd()
		if err := os.Chdir(d); err != nil {
			core.Fatal("C14: chdir: %v", err)
		}
		defer func() {
			_ = os.Chdir(old)
			_ = os.RemoveAll(d)
		}()
	}
	if run.NilShell && (run.Ctx == "" || run.Ctx == "never") && !strings.HasPrefix(run.Act, "cancel") {
		cfg.ShellCommand = nil
	}
	if run.CRLF {
		cfg.NewlineOutput = interp.CRLFNewlineMode
	}
	switch run.InputMode {
	case "csv":
		cfg.InputMode = interp.CSVMode
	case "tsv":
		cfg.InputMode = interp.TSVMode
	}
	if run.InputMode != "" {
		cfg.CSVInput.Header = run.Header
		if run.CSVSep != "" {
			cfg.CSVInput.Separator, _ = utf8.DecodeRuneInString(run.CSVSep)
		}
		if run.CSVComment != "" {
			cfg.CSVInput.Comment, _ = utf8.DecodeRuneInString(run.CSVComment)
		}
		if run.BadSep {
			cfg.CSVInput.Separator = '"'
		}
	}
	switch run.OutputMode {
	case "csv":
		cfg.OutputMode = interp.CSVMode
	case "tsv":
		cfg.OutputMode = interp.TSVMode
	}
	cfg.Vars = []string{
		"act", run.Act, "probe", b2s(run.Probe), "probevars", b2s(run.ProbeVars), "defaults", b2s(run.Defaults),
		"usefiles", b2s(run.UseFiles), "usegetline", b2s(run.UseGetline), "usestdin", b2s(run.UseStdin), "usecmd", b2s(run.UseCmd), "userand", b2s(run.UseRand),
		"usematch", b2s(run.UseMatch), "usedeep", b2s(run.UseDeep), "usename", b2s(run.UseName), "userec", b2s(run.UseRec),
		"depth", fmt.Sprint(run.Depth), "zero", "0", "dyn", "b+", "target", "abbcb",
		"cmdin", "ci;emit:from-child\n;exit:0", "cmdout", "co;save:" + fs.Path("cmdsaved") + ";exit:3",
	}
	cfg.Vars = append(cfg.Vars, run.ExtraVars...)
	if run.BadMode {
		cfg.Vars = append(cfg.Vars, "NR", "7", "FNR", "3", "RSTART", "4", "NF", "2", "OUTPUTMODE", "bogus")
	}
	if run.BadVars {
		cfg.Vars = append(cfg.Vars, "dangling")
	}
	steps := 0
	var ctx *core.SimContext
	if run.Ctx != "" {
		ctx = core.NewSimContext()
		st.ctx = ctx
		if run.Ctx == "pre" {
			ctx.Cancel(context.Canceled)
		}
	}
	interp.VerifStep = func(kind interp.VerifStepKind) {
		steps++
		if ctx != nil && (run.Ctx == "step" || run.Ctx == "deadline") && steps == run.CancelStep {
			if run.Ctx == "deadline" {
				ctx.Cancel(context.DeadlineExceeded)
			} else {
				ctx.Cancel(context.Canceled)
			}
			res.Fired["fault:cancel_at_vm_step"]++
		}
	}
	defer func() { interp.VerifStep = nil }()
	if slot != nil {
		// the caller keeps one Config value around and rewrites its fields before every call
		*slot = *cfg
		cfg = slot
	}
	r := guarded(func() (int, error) {
		if ctx != nil {
			return it.ExecuteContext(ctx, cfg)
		}
		return it.Execute(cfg)
	})
	cancelledDuring := ctx != nil && ctx.Cancelled()
	if ctx != nil && !cancelledDuring {
		ctx.Cancel(context.Canceled) // the caller's usual "defer cancel()": the context ends with the call
	}
	res.Status, res.Err, res.Panic = r.Status, r.errString(), r.Panic
	res.Obs = st.obs
	res.Stdout = stdout.String()[base:]
	res.Stderr = stderr.String()
	// the scratch path appears in child command lines echoed in error messages: normalise
	res.Stderr = strings.ReplaceAll(res.Stderr, fs.Dir, "<fs>")
	res.Err = strings.ReplaceAll(res.Err, fs.Dir, "<fs>")
	res.Files = core.SnapshotString(fs.Snapshot())
	if cwdDir != "" {
		res.Files += " cwd: " + dirListing(cwdDir)
		res.Stderr = strings.ReplaceAll(res.Stderr, cwdDir, "<cwd>")
		res.Err = strings.ReplaceAll(res.Err, cwdDir, "<cwd>")
	}
	res.Steps = steps
	if stdout.Failed > 0 {
		res.Fired["fault:stdout_write_error"] += stdout.Failed
	}
	if stats.Errors > 0 {
		res.Fired["fault:stdin_read_error"] += stats.Errors
	}
	if cancelledDuring {
		res.Fired["runs_with_cancelled_context"]++
	}
	if r.Err != nil {
		res.Fired["runs_ending_with_error"]++
	}
	log.Addf("run act=%s -> %s", run.Act, res.String())
	return res
}

type c14Engine struct{}

func init() { core.Register(c14Engine{}) }

func (c14Engine) ID() string               { return "C14" }
func (c14Engine) Level(tier string) string { return "exploration" }
func (c14Engine) Rule() string {
	return "scenario = history of 1-5 runs on one Interpreter of a multi-mode program, each run with its own Config (stdin bytes and delivery, Vars, Args over a simulated file system, input/output modes, sandbox flags, Environ) and ending (normal, exit in BEGIN/rule/END/function, division by zero or native failure in BEGIN/rule/function/for-in/END, cancellation at a drawn VM step or by script, pre-cancelled context, stdin read error, stdout write error, invalid Vars / CSV separator). With ResetVars+ResetRand every run, without ResetVars every run in its variable-blind form, is compared (stdout, stderr, status, error text, files, probe observations) with the same run on a newly created Interpreter in an identical world. One evaluation = one run on the reused interpreter plus its fresh twin. Distinct = distinct event-log hash; non-trivial = the history has at least two runs."
}
func (c14Engine) Assumptions() []string {
	return []string{
		"without ResetVars FS, OFS, ORS, RS, SUBSEP, CONVFMT, OFMT and RT count as variables that carry over; runs of such histories first assign the defaults and never observe globals",
		"error texts are comparable because both interpreters run the same build",
	}
}
func (c14Engine) Components() map[string]string {
	return map[string]string{
		"Interpreter.Execute/ExecuteContext, resetCore, ResetVars, ResetRand, VM, streams": "real",
		"stdin/stdout/stderr": "stub (SimReader/SimSink)", "files": "real files in a per-run scratch directory behind Config.OpenFile (SimFS)",
		"context": "stub (SimContext cancelled at a VM step through hook H1)", "child processes": "real processes running stub simsh (free-running)",
	}
}
func (c14Engine) Count(tier string) int {
	if tier == "thorough" {
		return 150000
	}
	return 6000
}
func (c14Engine) BudgetS(tier string) int {
	if tier == "thorough" {
		return 900
	}
	return 50
}
func (c14Engine) Workers(tier string) int { return 0 }
func (c14Engine) NewScenario() any        { return &c14Scn{} }

func c14GenRun(r *core.Rand, resetVars, resetRand bool, children bool) c14Run {
	run := c14Run{Act: core.Pick(r, c14Acts), Probe: true}
	run.Defaults = !resetVars
	run.ProbeVars = resetVars && r.Chance(3, 4)
	run.UseFiles = r.Chance(1, 2)
	run.UseGetline = r.Chance(1, 3)
	run.UseStdin = r.Chance(1, 6)
	run.UseCmd = children && r.Chance(1, 3)
	run.UseRand = resetRand && r.Chance(1, 2)
	run.UseMatch = r.Chance(1, 3)
	run.UseDeep = r.Chance(1, 2)
	run.UseRec = r.Chance(2, 3)
	run.Depth = r.Range(0, 6)
	if r.Chance(1, 10) {
		run.Depth = r.Range(50, 300)
	}
	if !run.UseDeep && strings.HasSuffix(run.Act, "fn") {
		run.UseDeep = true
	}
	// stdin
	lines := []string{"s1 x\n", "22 y\n", "s3\n", "a:b;c\n", "\n", "zz 9 8"}
	for n := r.Range(0, 5); n > 0; n-- {
		run.Stdin = append(run.Stdin, core.Pick(r, lines)...)
	}
	run.StdinD = genDelivery(r, len(run.Stdin))
	if r.Chance(1, 12) && len(run.Stdin) > 0 {
		run.StdinD.HasErr = true
		run.StdinD.ErrAt = r.Intn(len(run.Stdin) + 1)
	}
	// operands
	if r.Chance(1, 2) {
		ops := []string{"in1", "in2", "-", "", "g1=v", "missing", "in1"}
		for n := r.Range(1, 3); n > 0; n-- {
			run.Args = append(run.Args, core.Pick(r, ops))
		}
	}
	// modes
	if r.Chance(1, 4) {
		run.InputMode = core.Pick(r, []string{"csv", "tsv"})
		run.Header = r.Chance(1, 2)
		if r.Chance(1, 2) {
			run.Stdin = core.Bytes("a,b\n1,2\n\"q,r\",4\n")
			run.StdinD = genDelivery(r, len(run.Stdin))
			if r.Chance(1, 2) {
				run.Args = []string{"csv1"}
			}
		}
		if r.Chance(1, 4) {
			run.CSVSep = core.Pick(r, []string{"|", ";"})
		}
		run.BadSep = r.Chance(1, 12)
		if r.Chance(1, 3) {
			run.CSVComment = core.Pick(r, []string{"#", "#", "x"})
		}
	}
	run.UseName = r.Chance(1, 4)
	if run.InputMode != "" && run.Header {
		run.UseName = r.Chance(3, 4)
	}
	if r.Chance(1, 6) {
		run.OutputMode = core.Pick(r, []string{"csv", "tsv"})
	}
	run.NoExec = r.Chance(1, 8)
	run.NoFileWrites = r.Chance(1, 10)
	run.NoFileReads = r.Chance(1, 10)
	run.Chars = r.Chance(1, 6)
	run.CRLF = r.Chance(1, 8)
	run.NoArgVars = r.Chance(1, 8)
	run.EnvNil = r.Chance(1, 8)
	switch r.Intn(10) {
	case 0, 1:
		run.Ctx = "never"
	case 2:
		run.Ctx = "pre"
	case 3, 4:
		run.Ctx = core.Pick(r, []string{"step", "step", "deadline"})
		run.CancelStep = r.Range(1, 400)
		if r.Chance(1, 3) {
			run.CancelStep = r.Range(400, 4000)
		}
	}
	if strings.HasPrefix(run.Act, "cancel") && run.Ctx == "" {
		run.Ctx = "never"
	}
	if r.Chance(1, 10) {
		run.OutFail = true
		run.OutFailAt = r.Intn(60)
	}
	run.BadVars = r.Chance(1, 25)
	run.BadMode = r.Chance(1, 25)
	run.NilOpen = r.Chance(1, 10)
	run.NilShell = run.UseCmd && r.Chance(1, 6)
	if run.Ctx == "pre" || run.Ctx == "step" || run.Ctx == "deadline" || strings.HasPrefix(run.Act, "cancel") {
		// a cancellation kills /bin/sh at a moment no schedule of ours decides: what it had
		// already written to standard error would differ from run to run
		run.NilShell = false
	}
	if r.Chance(1, 4) && !run.EnvNil {
		run.Environ = []string{"HOME", "/h", "E" + fmt.Sprint(r.Intn(3)), "v"}
	}
	if resetVars && r.Chance(1, 5) {
		run.ExtraVars = core.Pick(r, [][]string{{"FS", ":"}, {"RS", ";"}, {"OFS", "-"}, {"ORS", "!\n"}, {"g1", "preset"}, {"CONVFMT", "%.3g"}, {"INPUTMODE", "csv header"}, {"OUTPUTMODE", "tsv"}})
	}
	return run
}

func (c14Engine) Gen(r *core.Rand, tier string, i int) any {
	sc := &c14Scn{}
	sc.ResetVars = r.Chance(1, 2)
	sc.ResetRand = sc.ResetVars || r.Chance(1, 3)
	sc.SameSink = r.Chance(1, 3)
	sc.SameConfig = r.Chance(1, 4)
	children := r.Chance(1, 12)
	n := r.Range(2, 5)
	if r.Chance(1, 10) {
		n = 1
	}
	for k := 0; k < n; k++ {
		sc.Runs = append(sc.Runs, c14GenRun(r, sc.ResetVars, sc.ResetRand, children))
	}
	if !sc.ResetVars && r.Chance(1, 6) {
		// Without ResetVars: every run of the history assigns the same separator variable through
		// Vars (so nothing differs by carry-over), sometimes a regex that does not compile - the
		// run is rejected, on a reused Interpreter exactly as on a new one, also when the same
		// invalid value was rejected in the run before
		name := core.Pick(r, []string{"FS", "RS"})
		bad := core.Pick(r, []string{"a(b", "x[y", "(", "b+)"})
		for k := range sc.Runs {
			sc.Runs[k].ExtraVars = []string{name, core.Pick(r, []string{"a+", ";;*", bad, bad})}
		}
	}
	return sc
}

func c14Diff(a, b *c14Result) string {
	switch {
	case a.Panic != b.Panic:
		return fmt.Sprintf("panic %q vs %q", a.Panic, b.Panic)
	case a.Status != b.Status:
		return fmt.Sprintf("exit status %d vs %d", a.Status, b.Status)
	case a.Err != b.Err:
		return fmt.Sprintf("error %q vs %q", a.Err, b.Err)
	case a.Stdout != b.Stdout:
		return fmt.Sprintf("stdout %q vs %q", a.Stdout, b.Stdout)
	case a.Stderr != b.Stderr:
		return fmt.Sprintf("stderr %q vs %q", a.Stderr, b.Stderr)
	case a.Files != b.Files:
		return fmt.Sprintf("files %s vs %s", a.Files, b.Files)
	}
	for i := 0; i < len(a.Obs) || i < len(b.Obs); i++ {
		var x, y string
		if i < len(a.Obs) {
			x = a.Obs[i]
		}
		if i < len(b.Obs) {
			y = b.Obs[i]
		}
		if x != y {
			return fmt.Sprintf("observation %d: %q vs %q", i+1, x, y)
		}
	}
	return ""
}

func (c14Engine) Run(scAny any, keep bool) core.Outcome {
	sc := scAny.(*c14Scn)
	var out core.Outcome
	log := core.NewLog(keep)
	prog := c14Program()
	reused, err := interp.New(prog)
	if err != nil {
		core.Fatal("C14: New: %v", err)
	}
	fired := map[string]int{}
	var shared *core.SimSink
	if sc.SameSink {
		shared = core.NewSimSink("stdout", log)
	}
	var slot *interp.Config
	if sc.SameConfig {
		slot = &interp.Config{}
	}
	for i := range sc.Runs {
		run := &sc.Runs[i]
		if i > 0 {
			if sc.ResetVars {
				reused.ResetVars()
			}
			if sc.ResetRand {
				reused.ResetRand()
			}
		}
		a := c14Exec(reused, run, log, shared, slot)
		fresh, _ := interp.New(prog)
		b := c14Exec(fresh, run, nil, nil, nil)
		for k, v := range a.Fired {
			fired[k] += v
		}
		out.SimTime += int64(a.Steps)
		if a.Panic != "" {
			out.Fail = &core.Failure{Oracle: "panic", Detail: fmt.Sprintf("run %d of %d (reset_vars=%v) panicked on the reused interpreter: %s", i+1, len(sc.Runs), sc.ResetVars, a.Panic)}
			break
		}
		if d := c14Diff(a, b); d != "" {
			f := &core.Failure{Oracle: "reused-vs-fresh", Detail: fmt.Sprintf("run %d of %d (reset_vars=%v reset_rand=%v, act=%q) on the reused interpreter differs from a new interpreter: %s", i+1, len(sc.Runs), sc.ResetVars, sc.ResetRand, run.Act, d)}
			if core.IsOpen("F-C14-1") && c14HeaderLeak(sc, i, a, b) {
				f.Known = "F-C14-1"
			}
			out.Fail = f
			break
		}
	}
	out.One(log.Hash(), len(sc.Runs) >= 2)
	out.Evals = len(sc.Runs)
	for k, v := range fired {
		out.Probe(k, v)
	}
	if keep {
		out.Log = log.Lines
	}
	return out
}

// c14HeaderLeak is the classifier of F-C14-1: an earlier run read a CSV header and the only
// difference is an @"name" lookup that works on the reused interpreter.
func c14HeaderLeak(sc *c14Scn, i int, a, b *c14Result) bool {
	earlier := false
	for k := 0; k < i; k++ {
		if sc.Runs[k].InputMode != "" && sc.Runs[k].Header {
			earlier = true
		}
	}
	return earlier && sc.Runs[i].UseName && strings.Contains(b.Err, "no field names")
}

func (c14Engine) Shrink(scAny any) []any {
	sc := scAny.(*c14Scn)
	var out []any
	clone := func() *c14Scn {
		c := *sc
		c.Runs = make([]c14Run, len(sc.Runs))
		for i := range sc.Runs {
			c.Runs[i] = sc.Runs[i]
			c.Runs[i].Args = append([]string(nil), sc.Runs[i].Args...)
			c.Runs[i].Stdin = append(core.Bytes(nil), sc.Runs[i].Stdin...)
			c.Runs[i].StdinD.Chunks = append([]int(nil), sc.Runs[i].StdinD.Chunks...)
		}
		return &c
	}
	for i := range sc.Runs {
		if len(sc.Runs) > 1 {
			c := clone()
			c.Runs = append(c.Runs[:i], c.Runs[i+1:]...)
			out = append(out, c)
		}
	}
	for i := range sc.Runs {
		i := i
		run := sc.Runs[i]
		mod := func(f func(r *c14Run)) {
			c := clone()
			f(&c.Runs[i])
			out = append(out, c)
		}
		if run.Act != "" {
			mod(func(r *c14Run) { r.Act = "" })
		}
		for _, fl := range []struct {
			on  bool
			off func(r *c14Run)
		}{
			{run.UseFiles, func(r *c14Run) { r.UseFiles = false }}, {run.UseGetline, func(r *c14Run) { r.UseGetline = false }}, {run.UseStdin, func(r *c14Run) { r.UseStdin = false }},
			{run.UseCmd, func(r *c14Run) { r.UseCmd = false }}, {run.UseRand, func(r *c14Run) { r.UseRand = false }},
			{run.UseMatch, func(r *c14Run) { r.UseMatch = false }}, {run.UseDeep, func(r *c14Run) { r.UseDeep = false }},
			{run.UseName, func(r *c14Run) { r.UseName = false }}, {run.UseRec, func(r *c14Run) { r.UseRec = false }},
			{run.ProbeVars, func(r *c14Run) { r.ProbeVars = false }},
			{run.NoExec, func(r *c14Run) { r.NoExec = false }}, {run.NoFileWrites, func(r *c14Run) { r.NoFileWrites = false }},
			{run.NoFileReads, func(r *c14Run) { r.NoFileReads = false }}, {run.Chars, func(r *c14Run) { r.Chars = false }},
			{run.CRLF, func(r *c14Run) { r.CRLF = false }}, {run.NoArgVars, func(r *c14Run) { r.NoArgVars = false }},
			{run.EnvNil, func(r *c14Run) { r.EnvNil = false }},
			{run.OutFail, func(r *c14Run) { r.OutFail = false }}, {run.BadVars, func(r *c14Run) { r.BadVars = false }}, {run.BadMode, func(r *c14Run) { r.BadMode = false }},
			{run.NilOpen, func(r *c14Run) { r.NilOpen = false }}, {run.NilShell, func(r *c14Run) { r.NilShell = false }},
			{run.BadSep, func(r *c14Run) { r.BadSep = false }}, {run.Header, func(r *c14Run) { r.Header = false }},
			{run.Ctx != "", func(r *c14Run) { r.Ctx = "" }}, {run.InputMode != "", func(r *c14Run) { r.InputMode, r.Header, r.CSVSep, r.BadSep, r.CSVComment = "", false, "", false, "" }},
			{run.CSVComment != "", func(r *c14Run) { r.CSVComment = "" }},
			{run.OutputMode != "", func(r *c14Run) { r.OutputMode = "" }}, {run.CSVSep != "", func(r *c14Run) { r.CSVSep = "" }},
			{len(run.Args) > 0, func(r *c14Run) { r.Args = nil }}, {len(run.Environ) > 0, func(r *c14Run) { r.Environ = nil }},
			{len(run.ExtraVars) > 0 && sc.ResetVars, func(r *c14Run) { r.ExtraVars = nil }}, {run.Depth > 0, func(r *c14Run) { r.Depth = 0 }},
			{run.StdinD.HasErr, func(r *c14Run) { r.StdinD.HasErr = false }}, {len(run.StdinD.Chunks) > 0, func(r *c14Run) { r.StdinD.Chunks = nil }},
			{len(run.Stdin) > 0, func(r *c14Run) { r.Stdin = nil }},
			{run.StdinD.EOFWithData, func(r *c14Run) { r.StdinD.EOFWithData = false }},
		} {
			if fl.on {
				mod(fl.off)
			}
		}
		if len(run.Args) > 1 {
			for k := range run.Args {
				k := k
				mod(func(r *c14Run) { r.Args = append(r.Args[:k:k], r.Args[k+1:]...) })
			}
		}
		if run.CancelStep > 1 {
			mod(func(r *c14Run) { r.CancelStep = run.CancelStep / 2 })
			mod(func(r *c14Run) { r.CancelStep = run.CancelStep - 1 })
		}
	}
	if sc.SameSink {
		c := clone()
		c.SameSink = false
		out = append(out, c)
	}
	if sc.SameConfig {
		c := clone()
		c.SameConfig = false
		out = append(out, c)
	}
	if sc.ResetRand && !sc.ResetVars {
		c := clone()
		c.ResetRand = false
		for i := range c.Runs {
			c.Runs[i].UseRand = false
		}
		out = append(out, c)
	}
	return out
}

var _ = sort.Strings
