package eng

import (
	"fmt"
	"os"
	"sort"
	"strconv"
	"strings"
	"time"

	"github.com/benhoyt/goawk/verifharness/core"
)

// Layer B of C13: the seeded scheduler for runs in which children share standard output
// with the program. Actors: the interpreter (parks inside the natives step()/tok() before
// every operation and inside SimSink.Write), every stub child (parks before each script
// step), and every delivery of child output (the os/exec copier goroutine parked inside
// SimSink.Write). One event is released at a time, chosen by the scenario's tape; after a
// release the scheduler waits for exactly the arrivals that release must cause. If an
// expected arrival does not come within a real-time grace the run falls back to free
// running ("async"), where only the schedule-independent oracles apply.

type schedEvent struct {
	kind    string // op | write | child | done
	id      int
	data    []byte
	release chan struct{}
	child   *core.Child
	msg     string
	res     execResult
}

type schedChild struct {
	name       string // instance name as the control server sees it (K1, K1#2)
	base       string
	steps      []string
	kid        *core.Child
	state      string // starting | parked | running | slurping | exited
	at         int
	toSink     bool // its stdout is the shared standard output (print | cmd and system children)
	emitted    int
	arrived    int
	delivery   *schedEvent // parked delivery
	stdinClose bool        // the interpreter has closed its stdin
	byPrint    bool        // started by print | cmd
	postEOF    bool        // the parked delivery was emitted after the child's slurp step (its stdin had reached EOF)
}

type c13Sched struct {
	sc      *c13Scn
	ops     map[int]*c13Op
	events  chan schedEvent
	srv     *core.ChildServer
	sink    *core.SimSink
	model   *c13Model
	res     *c13Result
	log     *core.Log
	kids    map[string]*schedChild
	inst    map[string]int
	tape    []int
	tapePos int

	iState   string // running | op | write | blocked | closing | done
	iEvent   *schedEvent
	iBlock   string // instance name the interpreter waits for
	expI     bool
	expDone  int // released writes that have not yet appended their bytes
	lastID   int
	closeQ   []string
	async    bool
	overlaps []string
	// closeOverlaps: two commands started by print | were both past their end of input and both
	// inside Config.Output.Write: their streams were not closed one after the other
	closeOverlaps []string
	decided       int
}

const c13LastOp = 1 << 20 // id of the end marker appended to scheduled programs

func (s *c13Sched) expecting() bool {
	if s.expI || s.expDone > 0 {
		return true
	}
	for _, k := range s.kids {
		if k.state == "starting" || k.state == "running" {
			return true
		}
		if k.toSink && k.delivery == nil && k.emitted > k.arrived {
			return true
		}
	}
	return false
}

func (s *c13Sched) childFor(base string, toSink, byPrint bool) *schedChild {
	s.inst[base]++
	name := base
	if s.inst[base] > 1 {
		name = fmt.Sprintf("%s#%d", base, s.inst[base])
	}
	k := &schedChild{name: name, base: base, steps: strings.Split(s.sc.Cmds[base], ";"), state: "starting", toSink: toSink, byPrint: byPrint}
	s.kids[name] = k
	return k
}

func (s *c13Sched) handle(ev schedEvent) {
	switch ev.kind {
	case "op":
		s.iState, s.iEvent, s.expI = "op", &ev, false
	case "written":
		s.expDone--
	case "done":
		s.iState, s.expI = "done", false
		s.res.Res = ev.res
	case "write":
		isChild := len(ev.data) > 0 && ev.data[0] >= '0' && ev.data[0] <= '9'
		if !isChild {
			s.iState, s.iEvent, s.expI = "write", &ev, false
			for _, k := range s.kids {
				if k.delivery != nil {
					s.overlap(k, "the program's Write arrived while a delivery of child "+k.name+" was inside Write")
				}
			}
			return
		}
		// attribute the delivery to the child whose digit it is
		var owner *schedChild
		for _, k := range s.kids {
			// (the copier may reach Write before the child's "done emit" message is handled, so
			// emitted may still lag behind: attribute by digit, prefer the child with an open balance)
			if k.toSink && k.delivery == nil && strings.HasPrefix(c13Emits(s.sc.Cmds[k.base]), string(ev.data[:1])) && k.arrived < len(c13Emits(s.sc.Cmds[k.base])) {
				if owner == nil || (k.emitted > k.arrived && !(owner.emitted > owner.arrived)) || ((k.emitted > k.arrived) == (owner.emitted > owner.arrived) && k.name < owner.name) {
					owner = k
				}
			}
		}
		if owner == nil {
			// unexpected delivery: let it through, nothing to schedule
			s.expDone++
			close(ev.release)
			return
		}
		owner.arrived += len(ev.data)
		owner.delivery = &ev
		owner.postEOF = false
		for i, st := range owner.steps {
			if st == "slurp" && owner.at > i {
				owner.postEOF = true
			}
		}
		if owner.postEOF && owner.byPrint {
			for _, k2 := range s.kids {
				if k2 != owner && k2.byPrint && k2.delivery != nil && k2.postEOF {
					s.closeOverlaps = append(s.closeOverlaps, fmt.Sprintf("output that %s wrote after the end of its input arrived while output that %s wrote after the end of its input was inside Write", owner.name, k2.name))
				}
			}
		}
		if s.iState == "write" {
			s.overlap(owner, "a delivery of child "+owner.name+" arrived while the program was inside Write")
		}
	case "child":
		k := s.kids[ev.child.Name]
		if k == nil {
			return
		}
		k.kid = ev.child
		m := ev.msg
		switch {
		case strings.HasPrefix(m, "hello "):
			k.state, k.at = "parked", -1
			s.res.Started = append(s.res.Started, k.name)
		case strings.HasPrefix(m, "at "):
			f := strings.SplitN(m, " ", 3)
			k.at, _ = strconv.Atoi(f[1])
			k.state = "parked"
		case strings.HasPrefix(m, "done emit"):
			if k.at >= 0 && k.at < len(k.steps) && strings.HasPrefix(k.steps[k.at], "emit:") {
				k.emitted += len(k.steps[k.at]) - 5
			}
		case strings.HasPrefix(m, "got "):
			t, _ := strconv.Unquote(m[4:])
			s.res.Got[k.name] += t
			k.state = "running"
		case m == "EOF":
			k.state = "exited"
			s.res.Exited[k.name] = true
		}
	}
}

func (s *c13Sched) overlap(k *schedChild, what string) {
	tag := "system"
	if k.byPrint {
		tag = "print|"
	}
	s.overlaps = append(s.overlaps, tag+": "+what)
}

func (s *c13Sched) unblockIfReady() {
	if s.iState != "blocked" && s.iState != "closing" {
		return
	}
	for {
		k := s.kids[s.iBlock]
		if k == nil {
			return
		}
		if !(k.state == "exited" && k.delivery == nil && k.arrived >= k.emitted) {
			return
		}
		if s.iState == "blocked" {
			s.iState, s.expI, s.iBlock = "running", true, ""
			return
		}
		// closing: next stream
		s.advanceClose()
		if s.iBlock == "" {
			return
		}
	}
}

// advanceClose moves the interpreter's closeAll to the next open command (sorted by name).
func (s *c13Sched) advanceClose() {
	s.iBlock = ""
	for len(s.closeQ) > 0 {
		name := s.closeQ[0]
		s.closeQ = s.closeQ[1:]
		k := s.kids[name]
		if k == nil {
			continue
		}
		k.stdinClose = true
		if k.state == "slurping" {
			k.state = "running"
		}
		s.iBlock = name
		return
	}
	// nothing left to wait for: the call returns
	s.expI = true
}

func (s *c13Sched) next() int {
	if s.tapePos < len(s.tape) {
		v := s.tape[s.tapePos]
		s.tapePos++
		return v
	}
	return 0
}

// releaseOp lets the interpreter run the operation it is parked in front of.
func (s *c13Sched) releaseOp() {
	ev := s.iEvent
	id := ev.id
	s.iEvent = nil
	defer close(ev.release)
	if id == c13LastOp {
		s.enterClosing()
		return
	}
	op := s.ops[id]
	m := s.model
	switch op.Kind {
	case "print", "printf":
		if op.Redir == "|" && m.open[op.Dest] == "" {
			k := s.childFor(op.Dest, true, true)
			m.open[op.Dest] = "cmd"
			m.curInst[op.Dest] = k.name
		}
		s.iState, s.expI = "running", true
	case "system":
		k := s.childFor(op.Name, true, false)
		s.iState, s.iBlock, s.expI = "blocked", k.name, false
	case "close":
		kind := m.open[op.Name]
		delete(m.open, op.Name)
		if kind == "cmd" {
			inst := m.curInst[op.Name]
			if k := s.kids[inst]; k != nil {
				k.stdinClose = true
				if k.state == "slurping" {
					k.state = "running"
				}
				s.iState, s.iBlock, s.expI = "blocked", inst, false
				s.unblockIfReady()
				return
			}
		}
		s.iState, s.expI = "running", true
	case "error-div", "error-fail":
		s.enterClosing()
	case "exit", "exit-n":
		if es := s.ops[-1]; es != nil && id >= es.K {
			s.enterClosing() // exit inside END: the program is over
		} else {
			s.iState, s.expI = "running", true // END (with the end marker) follows
		}
	default:
		s.iState, s.expI = "running", true
	}
}

func (s *c13Sched) enterClosing() {
	s.iState, s.expI = "closing", false
	var names []string
	for cmd, kind := range s.model.open {
		if kind == "cmd" {
			names = append(names, s.model.curInst[cmd])
		}
	}
	// closeAll visits the streams in the order of their names (the command strings)
	sort.Slice(names, func(i, j int) bool {
		return s.kids[names[i]].base+";"+s.sc.Cmds[s.kids[names[i]].base] < s.kids[names[j]].base+";"+s.sc.Cmds[s.kids[names[j]].base]
	})
	s.closeQ = names
	s.advanceClose()
	s.unblockIfReady()
}

type schedChoice struct {
	key string
	run func()
}

func (s *c13Sched) enabled() []schedChoice {
	var out []schedChoice
	if s.iState == "op" {
		out = append(out, schedChoice{"0interp-op", s.releaseOp})
	}
	if s.iState == "write" {
		out = append(out, schedChoice{"0interp-write", func() {
			ev := s.iEvent
			s.iEvent = nil
			s.iState, s.expI = "running", true
			s.expDone++
			close(ev.release)
		}})
	}
	var names []string
	for n := range s.kids {
		names = append(names, n)
	}
	sort.Strings(names)
	for _, n := range names {
		k := s.kids[n]
		if k.state == "parked" {
			k := k
			out = append(out, schedChoice{"1child-" + n, func() {
				next := k.at + 1
				step := ""
				if next >= 0 && next < len(k.steps) {
					step = k.steps[next]
				}
				if k.at == -1 {
					step = "" // leaving hello: the child reports its first step
					k.state = "running"
				} else {
					cur := k.steps[k.at]
					if cur == "slurp" && !k.stdinClose {
						k.state = "slurping"
					} else {
						k.state = "running"
					}
				}
				_ = step
				k.kid.Go()
			}})
		}
		if k.delivery != nil {
			k := k
			out = append(out, schedChoice{"2deliver-" + n, func() {
				ev := k.delivery
				k.delivery = nil
				s.expDone++
				close(ev.release)
				s.unblockIfReady()
			}})
		}
	}
	return out
}

func (s *c13Sched) goAsync() {
	if os.Getenv("VERIF_DEBUG") != "" {
		fmt.Fprintf(os.Stderr, "SCHED-ASYNC interp=%s block=%q expI=%v lastops=%v\n", s.iState, s.iBlock, s.expI, s.res.Trace)
		for n, k := range s.kids {
			fmt.Fprintf(os.Stderr, "  kid %s state=%s at=%d steps=%v emitted=%d arrived=%d delivery=%v stdinClose=%v\n", n, k.state, k.at, k.steps, k.emitted, k.arrived, k.delivery != nil, k.stdinClose)
		}
	}
	s.async = true
	s.res.Async = true
	s.sink.Gate, s.sink.After = nil, nil
}

// run is the scheduler's main loop; it returns when the call has returned and all children
// are gone (or after falling back to free running).
func (s *c13Sched) run() {
	wait := func(d time.Duration) (schedEvent, bool) {
		select {
		case ev := <-s.events:
			return ev, true
		case ev := <-s.srv.Events:
			return schedEvent{kind: "child", child: ev.Child, msg: ev.Msg}, true
		case <-time.After(d):
			return schedEvent{}, false
		}
	}
	freeRun := func() {
		// release everything that is parked and keep releasing until the end
		if s.iEvent != nil {
			close(s.iEvent.release)
			s.iEvent = nil
		}
		for _, k := range s.kids {
			if k.delivery != nil {
				close(k.delivery.release)
				k.delivery = nil
			}
			if k.state == "parked" && k.kid != nil {
				k.kid.Go()
				k.state = "running"
			}
		}
		deadline := time.Now().Add(30 * time.Second)
		for time.Now().Before(deadline) {
			alive := false
			for _, k := range s.srv.Children() {
				alive = alive || !k.Gone
			}
			if s.iState == "done" && !alive {
				return
			}
			ev, ok := wait(200 * time.Millisecond)
			if !ok {
				continue
			}
			switch ev.kind {
			case "op", "write":
				close(ev.release)
			case "done":
				s.iState = "done"
				s.res.Res = ev.res
			case "child":
				switch {
				case strings.HasPrefix(ev.msg, "hello "):
					s.res.Started = append(s.res.Started, ev.child.Name)
					ev.child.Go()
				case strings.HasPrefix(ev.msg, "at "):
					ev.child.Go()
				case strings.HasPrefix(ev.msg, "got "):
					t, _ := strconv.Unquote(ev.msg[4:])
					s.res.Got[ev.child.Name] += t
				case ev.msg == "EOF":
					s.res.Exited[ev.child.Name] = true
				}
			}
		}
		s.res.Deadlock = "the run did not finish within 30 s after falling back to free running"
		s.srv.KillAll()
		if s.iState != "done" {
			for ev := range s.events {
				if ev.kind == "done" {
					s.res.Res = ev.res
					break
				}
				if ev.release != nil {
					close(ev.release)
				}
			}
		}
	}
	for steps := 0; ; steps++ {
		// settle: wait for every arrival the last release must cause
		for s.expecting() {
			ev, ok := wait(3 * time.Second)
			if !ok {
				s.goAsync()
				freeRun()
				return
			}
			s.handle(ev)
			s.unblockIfReady()
		}
		allGone := true
		for _, k := range s.kids {
			if k.state != "exited" || k.delivery != nil {
				allGone = false
			}
		}
		if s.iState == "done" && allGone {
			return
		}
		en := s.enabled()
		if len(en) == 0 || steps > 5000 {
			// nothing to release: the interpreter must be on its way out (or is stuck)
			ev, ok := wait(5 * time.Second)
			if !ok {
				if s.iState != "done" {
					s.res.Deadlock = fmt.Sprintf("no event is enabled and the call has not returned (interpreter %s, waiting for %q)", s.iState, s.iBlock)
				}
				s.goAsync()
				freeRun()
				return
			}
			s.handle(ev)
			s.unblockIfReady()
			continue
		}
		sort.Slice(en, func(i, j int) bool { return en[i].key < en[j].key })
		c := en[s.next()%len(en)]
		s.decided++
		if strings.HasPrefix(c.key, "2deliver-") {
			if k := s.kids[c.key[9:]]; k != nil && k.delivery != nil {
				s.log.Addf("sched %s %q", c.key, k.delivery.data)
			}
		} else if c.key == "0interp-write" && s.iEvent != nil {
			s.log.Addf("sched %s %q", c.key, clip(string(s.iEvent.data), 40))
		} else {
			s.log.Addf("sched %s", c.key)
		}
		c.run()
	}
}

// c13RunScheduled wires the scheduler between the interpreter goroutine and the world.
func c13RunScheduled(sc *c13Scn, ops map[int]*c13Op, srv *core.ChildServer, sink *core.SimSink, start func() execResult, res *c13Result, log *core.Log) {
	s := &c13Sched{sc: sc, ops: ops, events: make(chan schedEvent, 64), srv: srv, sink: sink, res: res, log: log,
		kids: map[string]*schedChild{}, inst: map[string]int{}, tape: sc.Tape, iState: "running", expI: true}
	s.model = &c13Model{sc: sc, files: map[string]string{}, open: map[string]string{}, spans: map[string]string{}, curInst: map[string]string{}, vals: map[int]float64{}, lines: map[int]string{},
		startedAfter: map[string]int{}, inst: map[string]int{}, openTrunc: map[string]bool{}, skipFile: map[string]bool{}}
	park := func(ev schedEvent) {
		ev.release = make(chan struct{})
		s.events <- ev
		<-ev.release
	}
	c13cur.yield = func(id int) {
		if !s.async {
			park(schedEvent{kind: "op", id: id})
		}
	}
	sink.Gate = func(p []byte) {
		if !s.async {
			park(schedEvent{kind: "write", data: append([]byte(nil), p...)})
		}
	}
	sink.After = func(p []byte) {
		if !s.async {
			s.events <- schedEvent{kind: "written"}
		}
	}
	go func() {
		r := start()
		s.events <- schedEvent{kind: "done", res: r}
	}()
	s.run()
	sink.Gate, sink.After = nil, nil
	res.Sched = s.decided
	res.SchedOverlaps = s.overlaps
	res.SchedCloseOverlaps = s.closeOverlaps
}
